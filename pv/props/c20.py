# -*- coding: utf-8 -*-
"""
C20 - perdictable evaluates a function once per row of the keyed join of its inputs.

Oracle: key-set algebra written from the statement (plain dicts / sets / loops) plus a call counter inside f.
  K  = intersection of the key sets of the table inputs without a default
       (if there is no such input: union of the key sets of the table inputs with a default)
  row(k) = for every input: the scalar itself | the table's value at k | its default where it lacks k
  perdictable(f, on, defaults)(**inputs)  -> all scalars: f(...) itself
                                           -> otherwise one row per k in K, ascending by key, value f(**row(k)), f called once per row
  join(inputs, on, defaults = ...)         -> one row per k in K, ascending by key, holding row(k)
  data / expiry                            -> k in P with a past expiry keeps the supplied value and is absent from the call log,
                                              every other k of K is in the call log exactly once
Generalisation pass 2 (bug classes 11-20): several calls on ONE set of objects (sub-check session: state kept on the lifted function, the caller's own on / renames / defaults / inputs
containers, one decorator object for two functions from one factory), one key in several raw types, one table object for two inputs / shared key column objects / the data table being an input,
numbers-only keys around 2**53, function shapes (keyword-only, *rest, parameters left out, container defaults), the options that are off by default, sequences as cells / scalars of length 0-1 /
ranges / dicts, calendar boundary keys. Class 20 (order of steps in a list of methods) has no counterpart here.
Every evaluation may be repeated on the same objects after every cell of the first result was overwritten: the statement holds for
each evaluation, so the second one is judged by the same model (this is how aliasing of result and operands / state kept between
calls becomes visible without asserting more than the statement).
"""
import datetime
import json
import os
from collections import Counter

import numpy as np
from hypothesis import strategies as st

from pv.core import Sub, Violation, call, check, short
from pv.codec import build as _codec_build, Env, D0, token, vtoken

# a default value that is a list / tuple is spread over the rows it fills instead of being handed to each of them (see ASSUMPTIONS): generated only on request
INCLUDE_SEQ_DEFAULTS = os.environ.get('PV_C20_INCLUDE_SEQ_DEFAULTS', '') == '1'

ASSUMPTIONS = [
    'key cells: per key column one of seven universes - ints, strings (incl. ""), datetimes, ints and strings mixed, (None, NaN, 1, "a", 2.5, "b"), numbers only (2**53+1, 2.0**53, NaN, -0.0, 2.5, -3) or calendar boundary '
    'datetimes (28 Feb 2023 at 00:00 and 12:00, 31 Dec 2023 at 00:00 and 23:59:59, 1 Jan 2024, 29 Feb 2024); NaN keys of different tables are different objects and count as the same key '
    '(key matching as in C02); keys are unique within each table (DESIGN G: for duplicate keys "one row per key" has no single reading and join logs a warning); 0 and -0.0 never meet in one key column',
    'raw types of key cells: in ~1 case in 7 a table (also the data / expiry tables) spells its numeric keys as numpy.int64 / numpy.float64, small ints as floats, datetimes as numpy.datetime64, or a mix row by row; '
    'these count as the same key as the python value (==, and pyg_base.cmp, agree) and the result may carry any of the spellings (keys are then compared by value). Only for |x| < 2**31: numpy compares an int64 with a '
    'float64 after rounding, so numpy.int64(2**53+1) == numpy.float64(2**53) and "the same key" has no single reading. pd.Timestamp key cells are not generated (cmp ranks by type name, a Timestamp never matches the '
    'equal datetime: key matching is the matter of C02 / C07), nor datetime.date ones (python says date != datetime, the library matches them)',
    'large cases: int keys 0..250 (two key columns: id // 16, id % 16), tables of 64 / 65 / 100 / 128 / 200 rows next to tables of the same length or an eighth of it, values cycling through 1-3 scalars',
    'every table input carries every column of `on` (1 or 2 key columns); tables keyed by a subset of `on` (cross join) are not claimed',
    'the value column of a table input is named after the input, or "data", or is the only non-key column, or is named by renames = {input: column} (a single table also: renames = column) - the four selections '
    'documented in join; an extra column (junk / <input>_x / <first key>_x; or "data" next to a column named after the input / named by renames, which then wins) only accompanies the first two and the last; '
    'with renames the library adds a column named after the input to the caller\'s table, which is not judged (see the last line)',
    'one table object may be passed for two inputs (its value column is then "data" or the only non-key column), tables with the same key list may share the key column list objects, '
    'and the data table may be one of the input tables itself (then every key of that table counts as computed before, with the table\'s value)',
    'names: plain scheme inputs (a, y, c, z) keys (k, j, m); nested scheme inputs (a, aa, ka, data_a) keys (k, kk, k_a) - substrings / prefixes / suffixes of one another and of "data", never equal to each other, to data / expiry, or to a dictable attribute',
    'table values are None, ints, finite floats, strings or (one table in 7) lists / tuples of 0-3 ints, also exactly as long as the table; a non-table input is one of the scalars or a list / tuple / range of 0-4 ints or a dict, '
    'which is one value handed whole to every row; defaults are scalars or dicts (a callable default is a formula); defaults may also name an input that is not supplied (no effect)',
    'KNOWN DEFECT kept out of the generator (switch PV_C20_INCLUDE_SEQ_DEFAULTS=1 puts it in): a default that is a list or tuple is not "the default value" of the rows it fills - _join_dictable_with_defaults hands it to '
    'dictable.__call__ as a column: join(dict(a = dictable(k = [1,2,3], a = [1,2,3]), y = dictable(k = [3], y = [5])), on = "k", defaults = dict(y = (7,8))) gives y = [7, 8, 5], and any other length raises ValueError '
    '(even when no row needs the default). Hence signature defaults that are containers are generated only where they do not act as join defaults (explicit defaults dict, parameter left out, non-table input)',
    'defaults: an explicit dict (possibly {}) is the complete list of defaults whatever defaults f has in its signature; with defaults = None the keyword defaults of f\'s signature (keyword-only ones included) are the defaults '
    '(perdictable docstring / argspec_defaults; join() itself has no f, there None means no defaults)',
    'f names every input as a parameter - positional-or-keyword or keyword-only, those with a signature default last, optionally followed by *rest (which must stay empty) - and none called data or expiry; a **kw catch-all is not '
    'generated (dictable presents to a function the columns its signature names: "no parameters are presented to f", kwpartial docstring); a parameter with a signature default may be left out by the caller (at least one input is '
    'supplied: quantifier 1..4 inputs), f then receives its declared default, whole; f returns a tuple of its arguments, its first argument, None, 0, "", False or a fresh []',
    'options: include_inputs = True (the result then also carries the input columns: only the key columns and data are judged), output_is_input = False / ["data"], renames, and the decorator form perdictable(on = ..)(f) are varied; '
    'if_none and col keep their defaults (if_none = True recomputes a kept None, which the statement excludes; col renames the value column and the data keyword)',
    'for an empty key set only "None or a table without rows" is asserted (DESIGN section 3 rule 2)',
    'expiry sub-check: at least one table input has no default, so the key set is an intersection and is not widened by the (outer-joined) data / expiry tables',
    'expiry sub-check: expiries are assigned to previously computed keys only (quantifier); a key with a past expiry but no supplied value (pyg-base returns None for it without calling f) is not generated',
    'expiry sub-check: previously computed keys that are no longer in the join (stale) are supplied only when the join is non-empty: with an empty join perdictable hands back the supplied data table as it is',
    'expiries are instants in year 1-2000 (past) or 2999-9999 (future) given as datetime.datetime, numpy.datetime64 or (years 1700-2250) pd.Timestamp, never today-relative (so "exactly today" cannot be generated); datetime.date expiries are not claimed (dt(0) is a datetime and cannot be compared with a date)',
    'order of key cells of different types, None and NaN is judged with pyg_base.cmp (verified by C07); cells of one type with native <',
    'operands unchanged is not asserted (the statement is silent); a repeated evaluation on the same objects must satisfy the statement again',
    'session sub-check: the tables, the `on` list, the renames / defaults / inputs dicts, the decorator object and the lifted functions are built once and shared by 2-4 calls (no large tables); every call is judged by the '
    'single-call model on the ORIGINAL content of those containers (perdictable writes data / expiry entries into the caller\'s defaults dict: harmless, not judged); each call supplies at least one input',
]

NAMES = {'plain': ['a', 'y', 'c', 'z'], 'nested': ['a', 'aa', 'ka', 'data_a']}
KEYCOLS = {'plain': ['k', 'j', 'm'], 'nested': ['k', 'kk', 'k_a']}
ABSENT = {'plain': 'zz', 'nested': 'a_k'}
PAST = [['dt', 730120, 0], ['dt', 730119, 82800], ['dt', 719163, 0], ['dt', 1, 0]]             # 2000-01-01, 1999-12-31 23:00, 1970-01-01, 0001-01-01
FUTURE = [['dt', 1095363, 0], ['dt', 1095163, 43200], ['dt', 3652059, 86399]]                   # 3000-01-01, 2999-06-15 12:00, 9999-12-31 23:59:59
_PAST_LIMIT = 730120 + 366
FRETS = ['tuple', 'first', 'none', 'tuple', 'zero', 'empty_str', 'false', 'empty_list']
LARGE_N = [64, 200, 100, 65, 128]
LARGE_MOD = 251

_val = st.one_of(st.none(), st.integers(0, 5), st.sampled_from([0.5, 2.0]), st.sampled_from(['u', 'uv', '']))
# a non-table input may itself be a sequence (a vector of weights, say): it is one value, handed whole to every row - also when its length is the number of rows
_seqval = st.tuples(st.sampled_from(['list', 'tuple']), st.lists(st.integers(0, 5), max_size=4)).map(list)
# ... of every short length (0 and 1 next to longer ones), a range, or a dict (one keyed like the key columns)
_seqval2 = st.one_of(st.tuples(st.sampled_from(['list', 'tuple', 'range']), st.integers(0, 3).map(lambda n: list(range(n)))).map(list),
                     st.sampled_from([['dict', [['z', 1]]], ['dict', [['k', 2], ['data', 0]]], ['dict', []]]))
_scalar_input = st.one_of(_val, _val, _val, _val, _val, _val, _seqval, _seqval, _seqval2)
# a table cell may be a sequence too (one value of that row)
_cellseq = st.tuples(st.sampled_from(['list', 'tuple']), st.lists(st.integers(0, 5), max_size=3)).map(list)
_cell = st.one_of(_val, _val, _cellseq)
_old = st.one_of(st.sampled_from(['old', 'old2']), st.none(), st.sampled_from([0, '', 0.0, False]), st.integers(1, 5),
                 st.sampled_from(['old', None, 0, ['list', [1, 2]], ['tuple', [3]], ['list', []]]))
# default values: scalars and dicts; lists / tuples only on request (INCLUDE_SEQ_DEFAULTS)
_dictval = st.sampled_from([['dict', [['z', 1]]], ['dict', [['k', 2]]]])
_dval = st.one_of(*([_val] * 9 + [_dictval] + ([_seqval, _seqval] if INCLUDE_SEQ_DEFAULTS else [])))
_SEQTAGS = ('list', 'tuple', 'range')
BIG = 2 ** 53


def _is_seq_spec(v):
    return isinstance(v, list) and len(v) == 2 and v[0] in _SEQTAGS


def build(v, env=None):
    """codec.build plus a range"""
    if isinstance(v, list) and v and v[0] == 'range':
        return range(len(v[1]))
    return _codec_build(v, env)


def _universe(kind, n):
    if kind == 'int':
        return list(range(n))
    if kind == 'str':
        return ['', 'a', 'b', 'c', 'd', 'e'][:n]
    if kind == 'dt':
        return [['dt', D0 + i, 0] for i in range(n)]
    if kind == 'wide':
        return [None, ['nan', 0], 1, 'a', 2.5, 'b'][:n]
    if kind == 'num':       # numbers only: an int beyond 2**53 next to the float it would round to, NaN, -0.0
        return [BIG + 1, float(BIG), ['nan', 0], -0.0, 2.5, -3][:n]
    if kind == 'dtb':       # calendar boundary days, two of them twice (midnight and later the same day)
        return [['dt', 738579, 0], ['dt', 738579, 43200], ['dt', 738885, 0], ['dt', 738885, 86399], ['dt', 738886, 0], ['dt', 738945, 0]][:n]
    ints = list(range(1, 1 + (n + 1) // 2))
    return ints + ['a', 'b', 'c'][:n - len(ints)]


def _kid(key):
    return json.dumps(key)


def _dedupe(keys):
    seen, out = set(), []
    for k in keys:
        if _kid(k) not in seen:
            seen.add(_kid(k))
            out.append(k)
    return out


def _is_falsy_spec(v):
    return v is None or (isinstance(v, (bool, int, float, str)) and not v)


# ----------------------------------------------------------------------------- the model (spec level: keys are identified by their spec)

def model_defaults(spec):
    """the [name, value] pairs that act as defaults: the explicit dict when one is passed, the signature defaults of f when defaults = None"""
    return spec['defaults'] if spec['defaults_form'] == 'dict' else spec.get('sigdefs', [])


def model_keys(spec, defaults=None):
    """ordered list of key specs of the expected result (order = first appearance, NOT sorted), or None when all inputs are scalars"""
    defaults = dict((n, v) for n, v in (model_defaults(spec) if defaults is None else defaults))
    tables = [i for i in spec['inputs'] if i['kind'] == 'table']
    if not tables:
        return None
    nodef = [t for t in tables if t['name'] not in defaults]
    if nodef:
        keys = list(nodef[0]['keys'])
        for t in nodef[1:]:
            have = set(_kid(k) for k in t['keys'])
            keys = [k for k in keys if _kid(k) in have]
        return keys
    return _dedupe([k for t in tables for k in t['keys']])


def model_row(spec, key, built):
    """{input name: value} at `key`; built = {name: ('scalar', v) | ('table', {kid: v})}; returns (row, names of the inputs whose default was used)"""
    defaults = dict((n, v) for n, v in model_defaults(spec))
    row, used = {}, []
    kid = _kid(key)
    for i in spec['inputs']:
        kind, v = built[i['name']]
        if kind == 'scalar':
            row[i['name']] = v
        elif kid in v:
            row[i['name']] = v[kid]
        else:
            if i['name'] not in defaults:
                raise RuntimeError('model error: key %s missing from %s which has no default' % (key, i['name']))
            row[i['name']] = built['default:' + i['name']]
            used.append(i['name'])
    return row, used


# ----------------------------------------------------------------------------- generator

def _large_key(i, nk):
    return [i] if nk == 1 else [i // 16, i % 16]


@st.composite
def _case(draw, tier, want, allow_large=True):
    big = tier != 'quick'
    if want == 'join':
        draw(st.booleans())      # de-synchronises the join cases from the perdictable cases, which share seed and generator
    large = draw(st.sampled_from([0, 0, 0, 0, 1, 0, 0, 0, 0, 0])) == 1 and allow_large
    scheme = draw(st.sampled_from(['plain', 'nested']))
    nk = draw(st.sampled_from([1, 2]))
    on = list(draw(st.permutations(KEYCOLS[scheme])))[:nk]
    n = draw(st.sampled_from([2, 3, 1, 4, 2, 3]))
    names = list(draw(st.permutations(NAMES[scheme])))[:n]
    rawcase = draw(st.sampled_from([0, 0, 0, 0, 0, 1, 0])) == 1      # key cells of one value in several raw types (python / numpy / float spellings)

    def valcol_extra():
        valcol = draw(st.sampled_from(['self', 'data', 'other', 'self', 'data', 'other', 'self', 'data', 'other', 'renamed']))
        if valcol == 'other':
            return valcol, None
        if valcol == 'renamed':    # the value column is named by renames = {input: column}; another non-key column (also: data) makes the choice necessary
            return valcol, draw(st.sampled_from(['junk', 'data'] if scheme == 'plain' else ['name_x', 'key_x', 'data']))
        opts = [None, 'junk'] if scheme == 'plain' else [None, 'name_x', 'key_x']
        return valcol, draw(st.sampled_from(opts + (['data'] if valcol == 'self' else [])))

    def cells(nrows):
        seqtable = draw(st.sampled_from([0, 0, 0, 0, 0, 0, 1])) == 1
        vals = [draw(_cell if seqtable else _val) for _ in range(nrows)]
        if any(_is_seq_spec(v) for v in vals) and draw(st.booleans()):      # every sequence cell exactly as long as the table
            vals = [[v[0], [(2 * r + c) % 7 for c in range(nrows)]] if _is_seq_spec(v) else v for r, v in enumerate(vals)]
        return vals

    inputs = []
    if not large:
        usize = (3 if nk == 2 else 5) if not big else (4 if nk == 2 else 6)
        unis = [_universe(draw(st.sampled_from(['int', 'str', 'dt', 'mixed', 'wide', 'num', 'dtb'])), usize) for _ in range(nk)]
        allkeys = [[a] for a in unis[0]] if nk == 1 else [[a, b] for a in unis[0] for b in unis[1]]
        rank = dict((_kid(k), r) for r, k in enumerate(allkeys))
        keyst = st.sampled_from(allkeys)

        def some(sizes):
            sz = min(draw(st.sampled_from(sizes)), len(allkeys) - 1)
            return draw(st.lists(keyst, unique_by=_kid, min_size=sz, max_size=sz))
        base = some([3, 4, 2, 1] if not big else [3, 5, 2, 1, 6])

        def table_keys():
            own = some([1, 0, 2, 3] if not big else [1, 0, 3, 5])
            # 0: own keys only, 1: base then own, 2: own then base, 3: base only, 4: the keys of base, same first and last, middle reversed (else: reversed)
            # 5: base reversed, 6: same length, same first and last key as base, other keys in between
            # 7: exactly the key list of the previous table, whose key column objects it then shares
            use = draw(st.sampled_from([1, 2, 3, 0, 4, 6, 1, 2, 5, 4, 6, 7]))
            if use == 7:
                prevt = [t for t in inputs if t['kind'] == 'table']
                if prevt and prevt[-1]['keys']:
                    return list(prevt[-1]['keys']), cells(len(prevt[-1]['keys'])), True
                use = 3
            if use == 4:
                keys = [base[0]] + base[1:-1][::-1] + [base[-1]] if len(base) >= 4 else base[::-1]
            elif use == 5:
                keys = base[::-1]
            elif use == 6:
                others = [k for k in allkeys if _kid(k) not in set(_kid(b) for b in base)]
                if len(base) >= 3 and others:
                    mid = (others * len(base))[:len(base) - 2]
                    keys = _dedupe([base[0]] + mid + [base[-1]])
                else:
                    keys = base[::-1]
            else:
                keys = _dedupe({0: own, 1: base + own, 2: own + base, 3: base}[use])
            order = draw(st.sampled_from(['asis', 'asis', 'sorted', 'ends'])) if use < 4 else 'asis'
            if order == 'sorted':
                keys = sorted(keys, key=lambda k: rank[_kid(k)])
            elif order == 'ends' and len(keys) >= 3:
                lo, hi = min(keys, key=lambda k: rank[_kid(k)]), max(keys, key=lambda k: rank[_kid(k)])
                keys = [lo] + [k for k in keys if k is not lo and k is not hi] + [hi]
            return keys, cells(len(keys)), False

        def stale_keys(K):
            have = set(_kid(k) for k in K)
            return [k for k in draw(st.lists(keyst, unique_by=_kid, max_size=2)) if _kid(k) not in have]
    else:
        first = {}

        def table_keys():
            if not first:
                ln = draw(st.sampled_from(LARGE_N))
            else:
                how = draw(st.sampled_from(['eighth', 'same', 'mirror', 'other', 'eighth', 'same', 'mirror', 'other', 'identical']))
                ln = first['n'] if how in ('same', 'mirror', 'identical') else first['n'] // 8 if how == 'eighth' else draw(st.sampled_from(LARGE_N))
            mul = draw(st.sampled_from([7, 1, 250, 100]))
            off = draw(st.integers(0, LARGE_MOD - 1))
            ids = [(off + i * mul) % LARGE_MOD for i in range(ln)]
            if first and how == 'mirror':
                ids = first['ids'][::-1]       # the key set of the first table in the opposite order
            if first and how == 'identical':
                ids = list(first['ids'])       # the key list of the first table itself (shared key column objects)
            share = bool(first) and how == 'identical'
            if not first:
                first.update(n=ln, ids=ids)
            pat = draw(st.lists(_cell if draw(st.sampled_from([0, 0, 0, 0, 0, 0, 1])) else _val, min_size=1, max_size=3))
            return [_large_key(i, nk) for i in ids], [pat[i % len(pat)] for i in range(len(ids))], share

        def stale_keys(K):
            have = set(_kid(k) for k in K)
            return [k for k in [_large_key(i, nk) for i in draw(st.lists(st.integers(0, LARGE_MOD - 1), unique=True, max_size=2))] if _kid(k) not in have]

    for idx, name in enumerate(names):
        if draw(st.sampled_from([0, 0, 0, 1])) == 1:
            inputs.append(dict(name=name, kind='scalar', value=draw(_scalar_input)))
            continue
        if idx and draw(st.sampled_from([0, 0, 0, 0, 0, 0, 1])) == 1:
            # the very same table object passed for two inputs (its value column is "data" or the only non-key column, so it serves any name)
            src = [t for t in inputs if t['kind'] == 'table' and not t.get('alias')]
            if src:
                src = src[0]
                if src['valcol'] not in ('data', 'other') or src['extra']:
                    src['valcol'], src['extra'] = draw(st.sampled_from([('data', None), ('other', None)]))
                inputs.append(dict(src, name=name, alias=src['name']))
                continue
        keys, vals, share = table_keys()
        valcol, extra = valcol_extra()
        kraw = draw(st.sampled_from(['plain', 'np', 'float', 'mixed'])) if rawcase else 'plain'
        inputs.append(dict(name=name, kind='table', keys=keys, vals=vals, valcol=valcol, extra=extra, rev=draw(st.booleans()), kraw=kraw, alias=None, sharekeys=share))
    defaults = []
    for name in (names if draw(st.booleans()) else names[::-1]):
        if draw(st.sampled_from([0, 0, 0, 1])) == 1:
            defaults.append([name, draw(_dval)])
    absent = draw(st.sampled_from([0, 0, 0, 1, 2, 0]))
    if absent:
        d = [ABSENT[scheme], draw(_val)]
        defaults = [d] + defaults if absent == 1 else defaults + [d]
    # signature defaults of f (not for join(), which has no f): they count only when defaults = None is passed
    sigdefs = []
    if want != 'join':
        for name in names:
            if draw(st.sampled_from([0, 0, 1])) == 1:
                sigdefs.append([name, draw(_val)])
        if sigdefs and draw(st.sampled_from([0, 1, 0])) == 1:
            defaults = []
    form = 'dict' if defaults else draw(st.sampled_from(['none', 'dict']))
    # a parameter with a signature default may simply be left out by the caller: python itself hands f the declared default
    for d in sigdefs:
        if len([i for i in inputs if i['kind'] != 'omitted']) > 1 and draw(st.sampled_from([0, 0, 0, 0, 0, 0, 1])) == 1:      # (at least one input is supplied)
            at = [x for x, i in enumerate(inputs) if i['name'] == d[0]][0]
            if not any(i.get('alias') == d[0] for i in inputs) and not inputs[at].get('alias'):
                inputs[at] = dict(name=d[0], kind='omitted')
    shape = draw(st.sampled_from(['plain', 'plain', 'plain', 'plain', 'plain', 'plain', 'kwonly', 'kwonly', 'varargs'])) if want != 'join' else 'plain'
    opts = draw(st.sampled_from([{}, {}, {}, {}, {}, {}, {}, {}, {}, {'include_inputs': True}, {'output_is_input': False}, {'output_is_input': ['data']}])) if want != 'join' else {}
    spec = dict(on=on, on_form=draw(st.sampled_from(['list', 'str'])) if nk == 1 else 'list', scheme=scheme, size='large' if large else 'small',
                inputs=inputs, defaults=defaults, sigdefs=sigdefs, defaults_form=form,
                positional=draw(st.booleans()), fret=draw(st.sampled_from(FRETS)), again=draw(st.booleans()),
                shape=shape, opts=dict(opts), decorator=draw(st.sampled_from([False, False, False, True])) if want != 'join' else False)
    ntab = len([i for i in inputs if i['kind'] == 'table'])
    spec['renames_form'] = 'str' if ntab == 1 and want != 'expiry' and any(i['kind'] == 'table' and i['valcol'] == 'renamed' for i in inputs) and draw(st.booleans()) else 'dict'
    # half of the sequence-valued non-table inputs are exactly as long as the result: still ONE value for every row, not a column
    K = model_keys(spec)
    for i in inputs:
        if i['kind'] == 'scalar' and _is_seq_spec(i['value']) and K and 2 <= len(K) <= 8 and draw(st.booleans()):
            i['value'] = [i['value'][0], [(3 * r + 1) % 7 for r in range(len(K))] if i['value'][0] != 'range' else list(range(len(K)))]
    # signature defaults that are containers (as long as the result in half of the cases): where they do not act as join defaults they change nothing,
    # where the parameter is left out they reach f whole
    dn = set(d[0] for d in model_defaults(spec))
    for d in sigdefs:
        kind = [i['kind'] for i in inputs if i['name'] == d[0]][0]
        if (INCLUDE_SEQ_DEFAULTS or form == 'dict' or kind != 'table') and draw(st.sampled_from([0, 0, 0, 1])) == 1:
            ln = len(K) if K and 2 <= len(K) <= 8 and draw(st.booleans()) else draw(st.integers(0, 3))
            d[1] = [draw(st.sampled_from(['tuple', 'list'])), [(2 * r + 3) % 7 for r in range(ln)]]
    if want != 'expiry':
        return spec
    # ---- expiry: needs a table input without default (see ASSUMPTIONS)
    if not any(i['kind'] == 'table' and i['name'] not in dn for i in inputs):
        head = inputs[0]
        if head['kind'] != 'table' or head.get('alias'):
            keys, vals, share = table_keys()
            if not keys:
                keys, vals, share = table_keys()
            inputs[0] = head = dict(name=head['name'], kind='table', keys=keys, vals=vals, valcol='self', extra=None, rev=False, kraw='plain', alias=None, sharekeys=False)
        spec['defaults'] = [d for d in defaults if d[0] != head['name']]
        spec['sigdefs'] = [d for d in sigdefs if d[0] != head['name']]
    _draw_prev(draw, spec, large, stale_keys, rawcase)
    return spec


def _draw_prev(draw, spec, large, stale_keys, rawcase):
    """the previously computed values of an expiry case: a data table over a subset P of the joined keys and an expiry for each key of P"""
    inputs = spec['inputs']
    K = model_keys(spec)
    have = set(_kid(k) for k in K)
    kinds = ['no', 'absent', 'none', 'past', 'past', 'future']
    prev = []
    spec['data_is_input'] = None

    def entry(k, kind, old, **kw):
        return dict(key=k, value=old, kind=kind, when=draw(st.sampled_from(PAST)) if kind == 'past' else draw(st.sampled_from(FUTURE)) if kind == 'future' else None, **kw)
    cand = [i for i in inputs if i['kind'] == 'table' and not i.get('alias') and not any(j.get('alias') == i['name'] for j in inputs) and i['keys']]
    if K and cand and draw(st.sampled_from([0, 0, 0, 0, 0, 0, 0, 1])) == 1:
        # the data table IS one of the input tables (the same object): every key of that table was computed before, its value being the table's own
        t = cand[0]
        t['valcol'], t['extra'] = 'data', None
        spec['data_is_input'] = t['name']
        kpat = draw(st.lists(st.sampled_from(kinds[1:]), min_size=1, max_size=5))
        for r, (k, v) in enumerate(zip(t['keys'], t['vals'])):
            prev.append(entry(k, kpat[r % len(kpat)], v, **({} if _kid(k) in have else {'stale': True})))
    elif not large:
        for k in K:
            kind = draw(st.sampled_from(kinds))
            if kind != 'no':
                prev.append(entry(k, kind, draw(_old)))
    else:
        kpat = draw(st.lists(st.sampled_from(kinds), min_size=1, max_size=5))
        opat = draw(st.lists(_old, min_size=1, max_size=3))
        for r, k in enumerate(K):
            if kpat[r % len(kpat)] != 'no':
                prev.append(entry(k, kpat[r % len(kpat)], opat[r % len(opat)]))
    if not spec['data_is_input']:
        if K and stale_keys is not None and draw(st.sampled_from([0, 0, 0, 1])) == 1:
            for k in stale_keys(K):
                prev.append(entry(k, draw(st.sampled_from(kinds[1:])), draw(_old), stale=True))
        if len(prev) > 1 and draw(st.booleans()):
            prev = list(draw(st.permutations(prev))) if len(prev) <= 8 else prev[::-1]
    spec['prev'] = prev
    spec['expcol'] = draw(st.sampled_from(['expiry', 'data']))
    spec['exp_rev'] = draw(st.booleans())               # expiry table lists its rows in the reverse order of the data table
    spec['empty_as'] = draw(st.sampled_from(['omit', 'table']))   # how an empty data / expiry table is passed
    spec['prev_first'] = draw(st.booleans())            # data / expiry are the first keyword arguments instead of the last
    spec['exp_raw'] = draw(st.sampled_from(['dt', 'dt', 'dt', 'dt', 'ts', 'dt64', 'mixed']))     # one instant as datetime / pd.Timestamp / numpy datetime64
    spec['prev_kraw'] = draw(st.sampled_from(['plain', 'np', 'float', 'mixed'])) if rawcase else 'plain'
    return spec


# ----------------------------------------------------------------------------- builder

def _norm(spec):
    """replay files written before the generalisation passes lack the newer fields: fill in the values they implied"""
    spec = dict(spec)
    for k, v in (('sigdefs', []), ('scheme', 'plain'), ('size', 'small'), ('positional', False), ('fret', 'tuple'), ('again', False), ('prev_first', False),
                 ('shape', 'plain'), ('opts', {}), ('decorator', False), ('renames_form', 'dict'), ('kworder', None), ('exp_raw', 'dt'), ('prev_kraw', 'plain'),
                 ('data_is_input', None)):
        spec.setdefault(k, v)
    ins = []
    for i in spec['inputs']:
        if i['kind'] == 'table':
            i = dict(i, extra='junk' if i.get('extra') is True else (i.get('extra') or None))
            for k, v in (('kraw', 'plain'), ('alias', None), ('sharekeys', False)):
                i.setdefault(k, v)
        ins.append(i)
    spec['inputs'] = ins
    return spec


def _extra_name(i, on):
    return {'junk': 'junk', 'data': 'data', 'name_x': i['name'] + '_x', 'key_x': on[0] + '_x'}[i['extra']]


def _rawcell(c, mode, r):
    """the key cell c spelled in another raw type: numpy scalars ('np'), floats for small ints ('float'), or row by row one of python / numpy / float ('mixed')"""
    if mode == 'mixed':
        mode = ('plain', 'np', 'float')[r % 3]
    if mode == 'plain' or c is None or isinstance(c, (str, bool)):
        return c
    if isinstance(c, (int, float)) and not abs(c) < 2 ** 31:      # NaN; numbers where float64 runs out of precision (numpy compares an int64 with a float64 after rounding it)
        return c
    if isinstance(c, int):
        return np.int64(c) if mode == 'np' else float(c)
    if isinstance(c, float):
        return np.float64(c) if mode == 'np' else c
    if isinstance(c, datetime.datetime):
        return np.datetime64(c, 'us' if r % 2 else 's') if mode == 'np' else c
    return c


def _rawdate(x, mode, r):
    """the instant x as a datetime, a pd.Timestamp or a numpy datetime64 ('mixed': row by row)"""
    if mode == 'mixed':
        mode = ('dt', 'ts', 'dt64')[r % 3]
    if mode == 'ts' and 1700 < x.year < 2250:
        import pandas as pd
        return pd.Timestamp(x)
    if mode in ('ts', 'dt64'):
        return np.datetime64(x, 'us')
    return x


def _plain(x):
    if isinstance(x, np.datetime64):
        return x.astype('datetime64[us]').astype(datetime.datetime)
    if isinstance(x, np.integer):
        return int(x)
    if isinstance(x, np.floating):
        return float(x)
    return x


def _ktok(x):
    """value-level token of a key cell: 1, 1.0, numpy.int64(1) are one key, so are a datetime and the numpy datetime64 of the same instant"""
    return vtoken(_plain(x))


def _renames(spec):
    return dict((i['name'], 'r_' + i['name']) for i in spec['inputs'] if i['kind'] == 'table' and i['valcol'] == 'renamed')


_SESSION = [None]      # while a session case runs: json of an operand / container / function spec -> the ONE object built for it, shared by all calls of the session


def _shared(key, make):
    """the object for `key`: within a session the one built first, otherwise a new one"""
    S = _SESSION[0]
    if S is None:
        return make()
    if key not in S:
        S[key] = make()
    S['#uses'][key] += 1
    return S[key]


def _build(spec):
    from pyg_base import dictable
    env = Env()
    on = spec['on']
    inputs, built = {}, {}
    keylists = {}
    built['shared_keycols'] = False
    for i in spec['inputs']:
        name = i['name']
        if i['kind'] == 'omitted':
            continue
        if i['kind'] == 'scalar':
            v = _shared('in:' + json.dumps(i, sort_keys=True), lambda: build(i['value'], env))
            inputs[name] = v
            built[name] = ('scalar', v)
            continue
        if i.get('alias'):
            inputs[name] = inputs[i['alias']]
            built[name] = built[i['alias']]
            built['keys:' + name] = built['keys:' + i['alias']]
            continue
        vc = name if i['valcol'] == 'self' else 'data' if i['valcol'] == 'data' else 'r_' + name if i['valcol'] == 'renamed' else 'val_' + name
        kl = json.dumps([i['keys'], i['kraw']])

        def make():
            vals = [build(v, env) for v in i['vals']]
            cols = {}
            if i['sharekeys'] and kl in keylists:
                for col in on:
                    cols[col] = keylists[kl][col]          # the very list objects that are the key columns of an earlier table
                built['shared_keycols'] = len(i['keys']) >= 2     # (dictable copies a one-row column)
            else:
                kenv = Env()     # every table has its own NaN key object: keys of different tables are equal, never identical
                for c, col in enumerate(on):
                    cols[col] = [_rawcell(build(k[c], kenv), i['kraw'], r) for r, k in enumerate(i['keys'])]
            cols[vc] = vals
            if i['extra']:
                cols[_extra_name(i, on)] = [100 + r for r in range(len(vals))]
            order = list(cols)
            if i['rev']:
                order.reverse()
            if len(set(order)) != len(on) + 1 + bool(i['extra']):
                raise RuntimeError('builder: column names of table %s collide: %s' % (name, order))
            t = dictable({c: cols[c] for c in order})
            if len(t) != len(vals) or sorted(t.keys()) != sorted(order):
                raise RuntimeError('builder: table %s was not built as specified' % name)
            return t, cols, vals
        t, cols, vals = _shared('in:' + json.dumps([i, on], sort_keys=True), make)
        keylists.setdefault(kl, cols)
        inputs[name] = t
        built['keys:' + name] = list(zip(*[cols[col] for col in on])) if i['keys'] else []
        built[name] = ('table', dict((_kid(k), v) for k, v in zip(i['keys'], vals)))
    defaults = {}
    for n, v in spec['defaults']:
        defaults[n] = build(v, env)
    sig = dict((n, build(v, env)) for n, v in spec['sigdefs'])
    built['sigdefs'] = sig
    for n, v in (defaults if spec['defaults_form'] == 'dict' else sig).items():
        built['default:' + n] = v
    for i in spec['inputs']:
        if i['kind'] == 'omitted':
            built[i['name']] = ('scalar', sig[i['name']])
    if spec.get('kworder'):
        inputs = dict((n, inputs[n]) for n in spec['kworder'] if n in inputs)
    return env, inputs, built, defaults


def _fvalue(fret, names, kw):
    if fret == 'tuple':
        return ('f',) + tuple(kw[n] for n in names)
    if fret == 'first':
        return kw[names[0]]
    return {'none': None, 'zero': 0, 'empty_str': '', 'false': False, 'empty_list': []}[fret]


def _mkf(names, log, fret, sig=None, shape='plain'):
    """f(<names without signature default>, <names with one> = value): records its keyword arguments.
    shape kwonly: the parameters with a default (else the last one) are keyword-only; varargs: a trailing *rest, which must stay empty"""
    sig = sig or {}

    def _rec(*rest, **kw):
        if rest:
            kw['*rest'] = rest
        log.append(kw)
        return _fvalue(fret, names, kw)
    env = {'_rec': _rec}
    params = [n for n in names if n not in sig]
    dparams = []
    for n in names:
        if n in sig:
            env['_sig_' + n] = sig[n]
            dparams.append('%s = _sig_%s' % (n, n))
    if shape == 'kwonly':
        params = params + ['*'] + dparams if dparams else params[:-1] + ['*'] + params[-1:]
    else:
        params = params + dparams + (['*rest'] if shape == 'varargs' else [])
    return eval('lambda %s: _rec(%s%s)' % (', '.join(params), '*rest, ' if shape == 'varargs' else '', ', '.join('%s = %s' % (n, n) for n in names)), env)


def _lift(spec, f, dflt, log):
    """the perdictable object of the case: perdictable(f, on, renames, defaults, **options), by keyword or position, directly or as a decorator object applied to f.
    Within a session: the same `on` list, renames and defaults dict OBJECTS for every call (the caller's own containers), one decorator object per option set,
    one lifted function per (decorator, signature, return kind)"""
    from pyg_base import perdictable
    ident = [spec['on'], spec['on_form'], spec['defaults'], spec['defaults_form'], spec['positional'], spec['opts'], _renames(spec), spec['renames_form']]
    on = _shared('on:' + json.dumps(ident[:2]), lambda: _on_arg(spec))
    rn = _renames(spec)
    rn = _shared('rn:' + json.dumps([rn, spec['renames_form']], sort_keys=True), lambda: (list(rn.values())[0] if spec['renames_form'] == 'str' else rn) if rn else None)
    dflt = _shared('df:' + json.dumps(ident[2:4]), lambda: dflt)
    opts = spec['opts']

    def mk(function):
        if spec['positional']:
            return call('perdictable(%s, on, renames, defaults%s)' % ('f' if function else None, ', **%s' % opts if opts else ''), lambda: perdictable(function, on, rn, dflt, **opts))
        return call('perdictable(%son = on, renames = renames, defaults = defaults%s)' % ('f, ' if function else '', ', **%s' % opts if opts else ''),
                    lambda: perdictable(function, on=on, renames=rn, defaults=dflt, **opts) if function else perdictable(on=on, renames=rn, defaults=dflt, **opts))
    if not (spec['decorator'] or _SESSION[0] is not None):
        return mk(f), f, log
    dec = _shared('dec:' + json.dumps(ident, sort_keys=True), lambda: mk(None))
    names = [i['name'] for i in spec['inputs']]
    return _shared('p:' + json.dumps([ident, names, spec['sigdefs'], spec['fret'], spec['shape']], sort_keys=True), lambda: (call('decorator(f)', dec, f), f, log))


def _cellcmp(a, b):
    """-1/0/1 order of two key cells: native within a type, pyg_base.cmp across types and for None / NaN"""
    a, b = _plain(a), _plain(b)
    num = lambda x: isinstance(x, (int, float)) and not isinstance(x, bool) and x == x
    if (type(a) is type(b) and a is not None and a == a and b == b) or (num(a) and num(b)):      # python compares an int with a float exactly
        return -1 if a < b else 1 if a > b else 0
    from pyg_base import cmp
    return call('cmp(%r, %r)' % (a, b), cmp, a, b)


def _keycmp(x, y):
    for a, b in zip(x, y):
        o = _cellcmp(a, b)
        if o:
            return o
    return 0


def _check_keys(what, res, on, Kbuilt, tok=token):
    """res has exactly the keys K (nothing missing, nothing extra, none twice) in strictly ascending order; returns kid-token -> row index.
    tok = token: cells keep their type; tok = _ktok where the tables spell one key in several raw types (the result may carry any of the spellings)"""
    n = len(res)
    for c in on:
        check(c in res.keys(), '%s: key column %s missing from the result columns %s', what, c, list(res.keys()))
    got = [tuple(res[c][r] for c in on) for r in range(n)]
    gtok = [tuple(tok(x) for x in g) for g in got]
    gset = set(gtok)
    exp = dict((tuple(tok(x) for x in kb), kb) for kb in Kbuilt)
    missing = [exp[t] for t in exp if t not in gset]
    extra = [g for g, t in zip(got, gtok) if t not in exp]
    check(not missing and not extra and len(gtok) == len(gset) == len(exp),
          '%s: expected one row for each of the %s keys %s but the result has the %s keys %s (missing %s, unexpected %s)', what, len(exp), sorted(exp.values(), key=repr), len(got), got, missing, extra)
    for r in range(n - 1):
        check(_keycmp(got[r], got[r + 1]) < 0, '%s: rows are not sorted ascending by %s: key %s precedes %s', what, on, got[r], got[r + 1])
    return dict((t, r) for r, t in enumerate(gtok))


def _argtok(row, names):
    return tuple(token(row[n]) for n in names)


def _check_calls(what, exp_calls, calls, names):
    """the call log of f is, as a multiset of argument tuples, exactly the rows that are to be computed: each once, nothing else"""
    for c in calls:
        check('*rest' not in c, '%s: f(%s, *rest) was handed the positional extras %s', what, ', '.join(names), c.get('*rest'))
    got_calls = Counter(_argtok(c, names) for c in calls)
    if got_calls != exp_calls:
        raise Violation('%s: f must be called exactly once for each row to be computed and for no other (%i calls expected, %i made); argument tuples (%s) never/too rarely called: %s; called but not expected / called too often: %s; call log: %s'
                        % (what, sum(exp_calls.values()), len(calls), ', '.join(names), short(sorted((exp_calls - got_calls).elements(), key=repr), 200),
                           short(sorted((got_calls - exp_calls).elements(), key=repr), 200), short(calls, 300)))


def _same(a, b):
    return a is b or token(a) == token(b)


def _what(fn, spec, inputs, defaults, more=''):
    sig = ', f has the signature defaults %s' % dict((n, v) for n, v in spec['sigdefs']) if spec['sigdefs'] and fn != 'join' else ''
    rn = _renames(spec)
    opt = ''.join(', %s = %r' % kv for kv in sorted(spec['opts'].items())) if fn != 'join' else ''
    opt += ', renames = %r' % (list(rn.values())[0] if spec['renames_form'] == 'str' else rn) if rn else ''
    if fn != 'join' and spec['shape'] != 'plain':
        sig += ', f is %s' % {'kwonly': 'declared with keyword-only parameters', 'varargs': 'f(..., *rest)'}[spec['shape']]
    omitted = [i['name'] for i in spec['inputs'] if i['kind'] == 'omitted']
    if omitted:
        sig += ', the caller leaves out %s' % omitted
    return '%s(on = %r, defaults = %s%s%s)(%s%s)' % (fn, _on_arg(spec), short(defaults, 80) if spec['defaults_form'] == 'dict' else None, opt, sig, ', '.join('%s = %s' % (n, short(dict(v) if hasattr(v, 'keys') and hasattr(v, 'inc') else v, 120)) for n, v in inputs.items()), more)


def _on_arg(spec):
    return spec['on'][0] if spec['on_form'] == 'str' else list(spec['on'])


def _scribble(res):
    """overwrites every cell of a returned table in place (the lists the table holds), so that anything aliasing them shows in the second evaluation"""
    from pyg_base import dictable
    if isinstance(res, dictable):
        for c in list(res.keys()):
            col = dict.__getitem__(res, c)
            if isinstance(col, list):
                for r in range(len(col)):
                    col[r] = ('#', c, r)


def _classes(spec, K, built, used_names):
    tables = [i for i in spec['inputs'] if i['kind'] == 'table']
    ni = len(spec['inputs'])
    cls = ['tables=%i' % len(tables), 'inputs=%i' % ni, 'nkeys=%i' % len(spec['on']), 'names_' + spec['scheme'], 'f_returns=' + spec['fret']]
    if spec['fret'] not in ('tuple', 'first'):
        cls.append('f_returns_falsy')
    if spec['again']:
        cls.append('second_call')
    if spec['positional']:
        cls.append('positional')
    if len(spec['on']) == 2 and spec['on'] != sorted(spec['on']):
        cls.append('on_not_alphabetical')
    if any(i['kind'] == 'scalar' for i in spec['inputs']) and tables:
        cls.append('scalar_broadcast')
    if any(i['kind'] == 'scalar' and _is_falsy_spec(i['value']) for i in spec['inputs']):
        cls.append('falsy_scalar')
    seqs = [i['value'] for i in spec['inputs'] if i['kind'] == 'scalar' and _is_seq_spec(i['value'])]
    if seqs:
        cls.append('sequence_valued_scalar')
        if any(len(v[1]) == len(K or []) for v in seqs) and len(K or []) >= 2:
            cls.append('sequence_valued_scalar_as_long_as_the_result')
        if any(len(v[1]) <= 1 for v in seqs) and len(K or []) >= 2:
            cls.append('sequence_valued_scalar_of_length_0_or_1')
        if any(v[0] == 'range' for v in seqs):
            cls.append('range_valued_scalar')
    if any(i['kind'] == 'scalar' and isinstance(i['value'], list) and i['value'][0] == 'dict' for i in spec['inputs']):
        cls.append('dict_valued_scalar')
    # ---- classes of the second generalisation pass
    if any(_is_seq_spec(v) for t in tables for v in t['vals'][:8]):
        cls.append('sequence_valued_cell')
        if any(_is_seq_spec(v) and len(v[1]) == len(t['vals']) for t in tables for v in t['vals'][:8] if len(t['vals']) >= 2):
            cls.append('sequence_valued_cell_as_long_as_the_table')
    dv = [v for n, v in model_defaults(spec)]
    if any(isinstance(v, list) and v[0] == 'dict' for v in dv):
        cls.append('dict_valued_default')
    if any(_is_seq_spec(v) for v in dv):
        cls.append('sequence_valued_default')
    if any(_is_seq_spec(v) for n, v in spec['sigdefs']):
        cls.append('container_signature_default')
        if any(_is_seq_spec(v) and len(v[1]) == len(K or []) for n, v in spec['sigdefs']) and len(K or []) >= 2:
            cls.append('container_signature_default_as_long_as_the_result')
    omitted = [i['name'] for i in spec['inputs'] if i['kind'] == 'omitted']
    if omitted:
        cls.append('omitted_parameter_takes_signature_default')
        if any(_is_seq_spec(v) for n, v in spec['sigdefs'] if n in omitted):
            cls.append('omitted_parameter_with_container_default')
    if spec['shape'] != 'plain':
        cls.append('f_shape=' + spec['shape'])
    for o, v in spec['opts'].items():
        cls.append('option_%s=%s' % (o, 'list' if isinstance(v, list) else v))
    if spec['decorator']:
        cls.append('decorator_object_applied')
    if _renames(spec):
        cls.append('renames_selects_value_column')
        if spec['renames_form'] == 'str':
            cls.append('renames_as_string')
    if any(t.get('alias') for t in tables):
        cls.append('one_table_object_for_two_inputs')
    if built.get('shared_keycols'):
        cls.append('tables_share_key_column_objects')
    if any(t['kraw'] != 'plain' for t in tables):
        conv = lambda c: isinstance(c, (int, float)) and not isinstance(c, bool) or (isinstance(c, list) and c[0] == 'dt')
        spell = {}
        for t in tables:
            for r, k in enumerate(t['keys'][:12]):
                if all(conv(c) for c in k):
                    spell.setdefault(_kid(k), set()).add(('plain', 'np', 'float')[r % 3] if t['kraw'] == 'mixed' else t['kraw'])
        if spell:
            cls.append('keys_in_several_raw_types')
        if any(len(v) > 1 for kid, v in spell.items() if K and kid in set(_kid(k) for k in K[:12])):
            cls.append('one_key_in_two_raw_types_matches')
    unis = set()
    for t in tables:
        for k in t['keys'][:8]:
            for c in k:
                unis.add('n' if isinstance(c, (int, float)) and not isinstance(c, bool) or (isinstance(c, list) and c[0] == 'nan') else 'o')
                if isinstance(c, list) and c[0] == 'dt' and c[1] > 738000:
                    unis.add('b')
    if unis and 'o' not in unis:
        cls.append('numeric_only_keys')
    allk = set(_kid([c]) for t in tables for k in t['keys'][:8] for c in k)
    if _kid([BIG + 1]) in allk and _kid([float(BIG)]) in allk:
        cls.append('int_beyond_2**53_next_to_float_key')
    if _kid([-0.0]) in allk:
        cls.append('negative_zero_key')
    if 'b' in unis:
        cls.append('calendar_boundary_keys')
        days = Counter((col, c[1]) for t in tables[:1] for k in t['keys'] for col, c in enumerate(k) if isinstance(c, list) and c[0] == 'dt')
        if any(len(set(c[2] for t in tables for k in t['keys'] if isinstance(k[col], list) and k[col][0] == 'dt' and k[col][1] == day for c in [k[col]])) > 1 for col, day in days):
            cls.append('keys_on_one_day_at_different_times')
    if any(not t['keys'] for t in tables):
        cls.append('empty_table')
    if any(i['kind'] == 'table' and not i['keys'] for i in spec['inputs'][1:-1]):
        cls.append('empty_table_in_the_middle')
    dn = [d[0] for d in model_defaults(spec)]
    sn = [d[0] for d in spec['sigdefs']]
    if sn:
        cls.append('f_has_signature_defaults')
        if spec['defaults_form'] == 'none':
            cls.append('signature_defaults_are_the_defaults')
        else:
            cls.append('sigdefs+explicit_' + ('empty' if not spec['defaults'] else 'overlapping' if set(sn) & set(dn) else 'other_params'))
            if any(t['name'] in sn and t['name'] not in dn for t in tables):
                cls.append('signature_default_not_in_explicit_defaults')
                both = model_keys(spec, list(spec['defaults']) + [d for d in spec['sigdefs'] if d[0] not in dn])
                if both is not None and K is not None and sorted(_kid(k) for k in both) != sorted(_kid(k) for k in K):
                    cls.append('ignored_signature_default_would_change_the_keys')
    if any(not t['keys'] and t['name'] in dn for t in tables):
        cls.append('empty_table_with_default')
    if any(len(t['keys']) == 1 for t in tables):
        cls.append('one_row_table')
    if any(c is None or isinstance(c, list) and c[0] == 'nan' for t in tables for k in t['keys'][:8] for c in k):
        cls.append('none_or_nan_key')
    if any(isinstance(c, list) and c[0] == 'nan' for t in tables for k in t['keys'][:8] for c in k):
        cls.append('nan_key')
    if any(_is_falsy_spec(c) for t in tables for k in t['keys'][:8] for c in k):
        cls.append('falsy_key')
    if len(spec['on']) == 2 and any(len(set(_kid(k[0]) for k in t['keys'])) < len(t['keys']) for t in tables):
        cls.append('ties_in_first_key_column')
    if dn:
        cls.append('has_defaults')
    innames = [i['name'] for i in spec['inputs']]
    if any(d not in innames for d in dn):
        cls.append('default_for_absent_input')
    if any(i['kind'] == 'scalar' and i['name'] in dn for i in spec['inputs']):
        cls.append('default_on_scalar')
    known = [d for d in dn if d in innames]
    if len(known) >= 2 and known != [n for n in innames if n in known]:
        cls.append('defaults_in_other_order_than_inputs')
    # fast-path fingerprints between pairs of tables and within a table
    for a in range(len(tables)):
        ka = [_kid(k) for k in tables[a]['keys']]
        for b in range(a):
            kb = [_kid(k) for k in tables[b]['keys']]
            if len(ka) >= 2 and ka != kb and set(ka) == set(kb):
                cls.append('same_keyset_other_order')
                if ka[0] == kb[0] and ka[-1] == kb[-1]:
                    cls.append('same_keyset_same_ends_other_order')
            if len(ka) >= 3 and len(ka) == len(kb) and ka[0] == kb[0] and ka[-1] == kb[-1] and set(ka) != set(kb):
                cls.append('same_length_same_ends_other_keys')
    for t in tables:
        kb = built['keys:' + t['name']]
        if len(kb) >= 3:
            if all(_keycmp(kb[r], kb[r + 1]) < 0 for r in range(len(kb) - 1)):
                cls.append('table_presorted')
            elif all(_keycmp(kb[0], k) < 0 for k in kb[1:]) and all(_keycmp(k, kb[-1]) < 0 for k in kb[:-1]):
                cls.append('table_ends_in_order_middle_not')
            else:
                cls.append('table_unsorted')
    cls = sorted(set(cls))
    if spec['size'] == 'large':
        cls.append('large')
        lens = [len(t['keys']) for t in tables]
        for ln in set(lens):
            if ln in LARGE_N:
                cls.append('rows=%i' % ln)
        if len(lens) >= 2 and min(lens) >= 1 and max(lens) >= 8 * min(lens):
            cls.append('one_table_8x_longer')
        if K is not None and len(K) >= 64:
            cls.append('large_result>=64')
    nt = False
    if K is None:
        cls.append('all_scalars')
    else:
        union = _dedupe([k for t in tables for k in t['keys']])
        if not K:
            cls.append('empty_result')
        if len(K) == 1:
            cls.append('one_row_result')
        if len(tables) >= 2:
            sets = [set(_kid(k) for k in t['keys']) for t in tables]
            if all(not (sets[a] & sets[b]) for a in range(len(sets)) for b in range(a)):
                cls.append('disjoint_tables')
            if K and len(K) < len(union):
                cls.append('partial_overlap')
                nt = True
            if K and len(K) == len(union):
                cls.append('total_overlap')
        if used_names:
            cls.append('default_extends_keys')
            nt = True
            dv = dict((n, v) for n, v in model_defaults(spec))
            if spec['defaults_form'] == 'none':
                cls.append('signature_default_fills_row')
            if any(_is_falsy_spec(dv[n]) for n in used_names):
                cls.append('falsy_default_fills_row')
        for t in set(t['valcol'] + ('+' + t['extra'] if t['extra'] else '') for t in tables):
            cls.append('valcol=' + t)
        if len(K) >= 3:
            cls.append('rows>=3')
    return nt, cls


def _rows(spec, K, built, names):
    """model rows of the keys K: list of (row dict, argument token), set of inputs whose default was used, whether two rows have equal arguments"""
    rows, used = [], set()
    for k in K:
        row, u = model_row(spec, k, built)
        used.update(u)
        rows.append(row)
    toks = [_argtok(r, names) for r in rows]
    return rows, toks, used, len(set(toks)) < len(toks)


# ----------------------------------------------------------------------------- perdictable without data / expiry

def _tok_for(spec):
    raw = any(i['kind'] == 'table' and i['kraw'] != 'plain' for i in spec['inputs']) or spec.get('prev_kraw', 'plain') != 'plain'
    return _ktok if raw else token


def _check_columns(what, res, on, opts):
    if opts.get('include_inputs'):
        check(all(c in res.keys() for c in on + ['data']), '%s: result columns are %s, expected (at least) the key columns and data', what, list(res.keys()))
    else:
        check(sorted(res.keys()) == sorted(on + ['data']), '%s: result columns are %s, expected the key columns and data', what, list(res.keys()))


def run_perd(spec):
    spec = _norm(spec)
    from pyg_base import dictable
    env, inputs, built, defaults = _build(spec)
    names = [i['name'] for i in spec['inputs']]
    fret = spec['fret']
    log = []
    dflt = None if spec['defaults_form'] == 'none' else dict(defaults)
    what0 = _what('perdictable', spec, inputs, defaults)
    p, f, log = _lift(spec, _mkf(names, log, fret, built['sigdefs'], spec['shape']), dflt, log)
    K = model_keys(spec)
    tok = _tok_for(spec)
    used, dup = set(), False
    if K:
        Kb = [tuple(build(c, env) for c in k) for k in K]
        rows, toks, used, dup = _rows(spec, K, built, names)

    def once(what):
        del log[:]
        res = call(what, lambda: p(**inputs))
        if K is None:
            exp = _fvalue(fret, names, dict((n, built[n][1]) for n in names))
            check(type(res) is type(exp) and _same(res, exp), '%s: all inputs are scalars, expected f(...) = %s itself, got %s', what, exp, res)
            check(len(log) == 1, '%s: all inputs are scalars but f was called %s times', what, len(log))
        elif not K:
            check(res is None or (isinstance(res, dictable) and len(res) == 0), '%s: no key is present in every table input, expected no rows, got %s', what,
                  dict(res) if isinstance(res, dictable) else res)
            check(len(log) == 0, '%s: there are no rows but f was called with %s', what, log)
        else:
            check(isinstance(res, dictable), '%s: expected a table, got %s', what, res)
            where = _check_keys(what, res, spec['on'], Kb, tok)
            _check_columns(what, res, spec['on'], spec['opts'])
            for kb, row in zip(Kb, rows):
                exp = _fvalue(fret, names, row)
                got = res['data'][where[tuple(tok(x) for x in kb)]]
                check(type(got) is type(exp) and _same(got, exp), '%s: the row of key %s holds %s, expected f applied to that key\'s values = %s', what, kb, got, exp)
            _check_calls(what, Counter(toks), list(log), names)
        return res
    res = once(what0)
    if spec['again']:
        _scribble(res)
        once(what0 + ' [second evaluation on the same objects, after every cell of the first result was overwritten]')
    nt, cls = _classes(spec, K, built, used)
    if dup:
        cls.append('rows_with_equal_args')
    return dict(nt=nt, cls=cls)


# ----------------------------------------------------------------------------- join(inputs, on, defaults)

def run_join(spec):
    spec = _norm(spec)
    from pyg_base import dictable
    from pyg_base import join
    env, inputs, built, defaults = _build(spec)
    names = [i['name'] for i in spec['inputs']]
    dflt = None if spec['defaults_form'] == 'none' else dict(defaults)
    what0 = _what('join', spec, inputs, defaults)
    K = model_keys(spec)
    tok = _tok_for(spec)
    rn = _renames(spec)
    rn = (list(rn.values())[0] if spec['renames_form'] == 'str' else rn) if rn else None
    session = _SESSION[0] is not None
    if session:      # the caller's own containers: one inputs dict, one `on` list, one renames and one defaults dict for all calls of the session that spell them alike
        s_inputs = _shared('ind:' + json.dumps([spec['inputs'], spec.get('kworder')], sort_keys=True), lambda: inputs)
        s_on = _shared('on:' + json.dumps([spec['on'], spec['on_form']]), lambda: _on_arg(spec))
        s_rn = _shared('rn:' + json.dumps([_renames(spec), spec['renames_form']], sort_keys=True), lambda: rn)
        s_dflt = _shared('df:' + json.dumps([spec['defaults'], spec['defaults_form']]), lambda: dflt)
    used = set()
    if K:
        Kb = [tuple(build(c, env) for c in k) for k in K]
        rows, toks, used, dup = _rows(spec, K, built, names)

    def once(what):
        if session:
            res = call(what, lambda: join(s_inputs, s_on, s_rn, s_dflt) if spec['positional'] else join(s_inputs, on=s_on, renames=s_rn, defaults=s_dflt))
        elif spec['positional']:
            res = call(what, lambda: join(dict(inputs), _on_arg(spec), rn, None if dflt is None else dict(dflt)))
        elif rn:
            res = call(what, lambda: join(dict(inputs), on=_on_arg(spec), renames=rn, defaults=None if dflt is None else dict(dflt)))
        else:
            res = call(what, lambda: join(dict(inputs), on=_on_arg(spec), defaults=None if dflt is None else dict(dflt)))
        check(isinstance(res, dictable), '%s: expected a table, got %s', what, res)
        if K is None:
            check(len(res) == 1 and all(n in res.keys() and _same(res[n][0], inputs[n]) for n in names),
                  '%s: all inputs are scalars, expected the single row %s, got %s', what, inputs, dict(res))
        elif not K:
            check(len(res) == 0, '%s: no key is present in every table input, expected no rows, got %s', what, dict(res))
        else:
            where = _check_keys(what, res, spec['on'], Kb, tok)
            check(sorted(res.keys()) == sorted(spec['on'] + names), '%s: result columns are %s, expected the key columns and one column per input', what, list(res.keys()))
            for kb, row in zip(Kb, rows):
                r = where[tuple(tok(x) for x in kb)]
                for n in names:
                    check(_same(res[n][r], row[n]), '%s: at key %s column %s is %s, expected %s', what, kb, n, res[n][r], row[n])
        return res
    res = once(what0)
    if spec['again']:
        _scribble(res)
        once(what0 + ' [second evaluation on the same objects, after every cell of the first result was overwritten]')
    nt, cls = _classes(spec, K, built, used)
    return dict(nt=nt, cls=[c for c in cls if not c.startswith('f_returns')])


# ----------------------------------------------------------------------------- data / expiry

def run_expiry(spec):
    spec = _norm(spec)
    from pyg_base import dictable
    env, inputs, built, defaults = _build(spec)
    names = [i['name'] for i in spec['inputs']]
    on = spec['on']
    fret = spec['fret']
    K = model_keys(spec)
    if K is None:
        raise RuntimeError('expiry case without a table input')
    prev = spec['prev']
    have = set(_kid(k) for k in K)
    for p_ in prev:
        if (_kid(p_['key']) in have) == bool(p_.get('stale')):
            raise RuntimeError('expiry case: stale flag does not agree with the model key set')
        if p_['kind'] == 'past' and not p_['when'][1] < _PAST_LIMIT or p_['kind'] == 'future' and not p_['when'][1] > _PAST_LIMIT + 300000:
            raise RuntimeError('expiry case: date does not agree with its kind')
    if not K and any(p_.get('stale') for p_ in prev):
        raise RuntimeError('expiry case: stale keys with an empty join are outside the domain')
    olds = [build(p_['value'], env) for p_ in prev]
    extra = {}
    more = ''
    pk = spec['prev_kraw']
    if spec['data_is_input']:
        t = [i for i in spec['inputs'] if i['name'] == spec['data_is_input']][0]
        if [p_['key'] for p_ in prev] != t['keys'] or [p_['value'] for p_ in prev] != t['vals'] or t['valcol'] != 'data' or t['extra']:
            raise RuntimeError('expiry case: the data table is said to be input %s but does not agree with it' % t['name'])
        extra['data'] = inputs[t['name']]
        more += ', data = the table passed as %s' % t['name']
    elif prev or spec['empty_as'] == 'table':
        def mkdata():
            kenv = Env()
            cols = dict((c, [_rawcell(build(p_['key'][i], kenv), pk, r) for r, p_ in enumerate(prev)]) for i, c in enumerate(on))
            cols['data'] = list(olds)
            return dictable(cols), cols
        extra['data'], cols = _shared('data:' + json.dumps([prev, on, pk], sort_keys=True), mkdata)
        more += ', data = %s' % short(cols, 200)
    erows = [p_ for p_ in prev if p_['kind'] != 'absent']
    if spec['exp_rev']:
        erows = erows[::-1]
    if erows or spec['empty_as'] == 'table':
        def mkexp():
            kenv = Env()
            cols = dict((c, [_rawcell(build(p_['key'][i], kenv), pk, r + 1) for r, p_ in enumerate(erows)]) for i, c in enumerate(on))
            cols[spec['expcol']] = [None if p_['kind'] == 'none' else _rawdate(build(p_['when'], env), spec['exp_raw'], r) for r, p_ in enumerate(erows)]
            return dictable(cols), cols
        extra['expiry'], cols = _shared('exp:' + json.dumps([erows, on, pk, spec['expcol'], spec['exp_raw']], sort_keys=True), mkexp)
        more += ', expiry = %s' % short(cols, 200)
    for tname in ('data', 'expiry'):
        if tname in extra and sorted(extra[tname].keys()) != sorted(on + [tname if tname == 'data' else spec['expcol']]):
            raise RuntimeError('builder: %s table was not built as specified: %s' % (tname, dict(extra[tname])))
    args = dict(extra)
    args.update(inputs)
    if not spec['prev_first']:
        args = dict(inputs)
        args.update(extra)
    log = []
    dflt = None if spec['defaults_form'] == 'none' else dict(defaults)
    what0 = _what('perdictable', spec, inputs, defaults, more)
    p, f, log = _lift(spec, _mkf(names, log, fret, built['sigdefs'], spec['shape']), dflt, log)
    tokf = _tok_for(spec)
    used = set()
    kinds = Counter()
    plan = []     # per key of K: (built key, row, kind, old value)
    if K:
        Kb = [tuple(build(c, env) for c in k) for k in K]
        rows, toks, used, dup = _rows(spec, K, built, names)
        byk = dict((_kid(p_['key']), (p_, o)) for p_, o in zip(prev, olds))
        for k, kb, row, tok in zip(K, Kb, rows, toks):
            p_, old = byk.get(_kid(k), (None, None))
            kind = 'not_computed_before' if p_ is None else p_['kind']
            kinds[kind] += 1
            plan.append((kb, row, tok, kind, old))

    def once(what):
        del log[:]
        res = call(what, lambda: p(**args))
        if not K:
            check(res is None or (isinstance(res, dictable) and len(res) == 0), '%s: no key is present in every table input, expected no rows, got %s', what,
                  dict(res) if isinstance(res, dictable) else res)
            check(len(log) == 0, '%s: there are no rows but f was called with %s', what, log)
            return res
        check(isinstance(res, dictable), '%s: expected a table, got %s', what, res)
        where = _check_keys(what, res, on, Kb, tokf)
        _check_columns(what, res, on, spec['opts'])
        exp_calls = Counter()
        for kb, row, tok, kind, old in plan:
            got = res['data'][where[tuple(tokf(x) for x in kb)]]
            if kind == 'past':
                check(type(got) is type(old) and _same(got, old), '%s: key %s was computed before (%s) with an expiry in the past, it must keep that value but holds %s', what, kb, old, got)
            else:
                exp_calls[tok] += 1
                exp = _fvalue(fret, names, row)
                check(type(got) is type(exp) and _same(got, exp), '%s: key %s (previous value: %s) must be recomputed: expected %s, the row holds %s', what, kb, kind, exp, got)
        _check_calls(what, exp_calls, list(log), names)
        return res
    res = once(what0)
    if spec['again']:
        if res is not extra.get('data'):
            _scribble(res)
        once(what0 + ' [second evaluation on the same objects, after every cell of the first result was overwritten]')
    nt, cls = _classes(spec, K, built, used)
    pk = set(k for k in kinds if k != 'not_computed_before')
    cls = [c for c in cls if not c.startswith('valcol=') and not c.startswith('inputs=') and not c.startswith('table_') and not c.startswith('same_')]
    cls.append('expiry_kinds=%i' % len(pk))
    for k in sorted(kinds):
        cls.append('kind=' + k)
    if len(pk) >= 3:
        cls.append('expiry_kinds>=3')
        nt = True
    for kb, row, tok, kind, old in plan:
        if kind != 'not_computed_before' and (old is None or not old):
            cls.append('old=%s/%s' % ('none' if old is None else 'falsy', kind))
    if plan:
        if plan and all(kind == 'past' for kb, row, tok, kind, old in plan):
            cls.append('all_rows_past')
        srt = sorted(range(len(plan)), key=lambda r: _SortKey(plan[r][0]))
        if plan[srt[0]][3] == 'past':
            cls.append('first_row_past')
        if plan[srt[-1]][3] == 'past':
            cls.append('last_row_past')
        if all(kind != 'not_computed_before' for kb, row, tok, kind, old in plan):
            cls.append('every_row_computed_before')
        if kinds.get('past') and fret not in ('tuple', 'first'):
            cls.append('f_returns_falsy_and_past_rows')
    if any(p_['when'] is not None and p_['when'][1] in (1, 3652059) and not p_.get('stale') for p_ in prev):
        cls.append('extreme_date')
    if any(p_.get('stale') for p_ in prev):
        cls.append('stale_previous_keys')
    if 'data' not in args:
        cls.append('no_data_passed')
    if 'expiry' not in args:
        cls.append('no_expiry_passed')
    if spec['prev_first'] and extra:
        cls.append('data_expiry_first_kwargs')
    cls.append('expcol=' + spec['expcol'])
    if spec['data_is_input']:
        cls.append('data_table_is_also_an_input')
    if 'expiry' in extra:
        raws = set(type(v).__name__ for v in extra['expiry'][spec['expcol']] if v is not None)
        if raws - {'datetime'}:
            cls.append('expiry_as_timestamp_or_datetime64')
        if any(type(v).__name__ == 'datetime64' and _plain(v).year < 2500 for v in extra['expiry'][spec['expcol']] if v is not None):
            cls.append('past_expiry_as_datetime64')
        if len(raws) > 1:
            cls.append('expiries_in_several_raw_types')
    if any(isinstance(old, (list, tuple)) for kb, row, tok, kind, old in plan if kind == 'past'):
        cls.append('sequence_valued_previous_value_kept')
    if spec['prev_kraw'] != 'plain' and prev:
        cls.append('previous_keys_in_other_raw_types')
    return dict(nt=nt, cls=sorted(set(cls)))


# ----------------------------------------------------------------------------- several calls on the same objects

def _variant(draw, base, how):
    """a call derived from the base call: same operand specs (hence, inside a session, the same objects) except for what `how` changes"""
    c = json.loads(json.dumps(base))
    ins = c['inputs']
    tabs = [x for x, i in enumerate(ins) if i['kind'] == 'table' and not i.get('alias') and not any(j.get('alias') == i['name'] for j in ins)]
    if how == 'permute' and len(ins) > 1:
        c['kworder'] = list(draw(st.permutations([i['name'] for i in ins])))
    elif how == 'drop' and len([i for i in ins[:-1] if i['kind'] != 'omitted']) >= 1:
        # one input fewer (the argument list of this call is a prefix of the other's): its default, if it has one, now names an input that is not supplied
        # (preferably one that has a default, else the last one)
        dn = [d[0] for d in model_defaults(c)]
        free = [i for i in ins if not i.get('alias') and not any(j.get('alias') == i['name'] for j in ins)]
        cand = [i for i in free if i['name'] in dn and i['kind'] == 'table'] or [i for i in free if i is ins[-1]]
        rest = [i for i in ins if not cand or i is not cand[0]]
        if cand and any(i['kind'] != 'omitted' for i in rest):
            c['inputs'] = rest
            c['sigdefs'] = [d for d in c['sigdefs'] if d[0] != cand[0]['name']]
    elif how == 'shrink' and tabs:
        t = ins[draw(st.sampled_from(tabs))]
        m = draw(st.integers(0, max(0, len(t['keys']) - 1)))
        t['keys'], t['vals'], t['sharekeys'] = t['keys'][:m], t['vals'][:m], False
    elif how == 'scalar' and ins:
        x = draw(st.integers(0, len(ins) - 1))
        if not ins[x].get('alias') and not any(j.get('alias') == ins[x]['name'] for j in ins) and ins[x]['kind'] != 'omitted':
            ins[x] = dict(name=ins[x]['name'], kind='scalar', value=draw(_scalar_input))
    elif how == 'other_f':
        c['fret'] = draw(st.sampled_from([r for r in FRETS if r != c['fret']]))
    elif how == 'options':
        c['opts'] = draw(st.sampled_from([{}, {'include_inputs': True}, {'output_is_input': False}]))
    c['again'] = draw(st.sampled_from([False, False, True]))
    return c


@st.composite
def _session_case(draw, tier):
    """2-4 calls of perdictable(...)(...) / join(...) on one set of objects: the tables, the `on` list, the renames and defaults dicts, the decorator object and the
    lifted functions are built ONCE and shared by all the calls that spell them alike; the calls are the base call again, with another keyword order, with one
    input fewer / replaced / shortened, through the other entry point, with and without previously computed values, or with another function from the same factory"""
    base = draw(_case(tier, 'expiry', allow_large=False))
    tabs = [i for i in base['inputs'] if i['kind'] == 'table']
    dn = set(d[0] for d in model_defaults(base))
    if base['defaults_form'] == 'dict' and len([t for t in tabs if t['name'] not in dn]) >= 2 and draw(st.booleans()):
        # one more outer-joined input, so that the defaults dict matters to the calls that share it
        t = [t for t in tabs if t['name'] not in dn][-1]
        base['defaults'] = base['defaults'] + [[t['name'], draw(_val)]]
        _draw_prev(draw, base, False, None, base['prev_kraw'] != 'plain')
    calls = []
    for r in range(draw(st.sampled_from([2, 3, 2, 4]))):
        how = draw(st.sampled_from(['same', 'permute', 'drop', 'shrink', 'scalar', 'other_f', 'options', 'same', 'drop'])) if r else 'same'
        c = _variant(draw, base, how) if r else dict(json.loads(json.dumps(base)), again=draw(st.sampled_from([False, False, True])))
        api = draw(st.sampled_from(['perd', 'expiry', 'join', 'expiry']))
        dn = set(d[0] for d in model_defaults(c))
        if api == 'expiry' and not any(i['kind'] == 'table' and i['name'] not in dn for i in c['inputs']):
            api = 'perd'
        if api == 'expiry':
            changed = json.dumps(c['inputs']) != json.dumps(base['inputs'])
            if changed or draw(st.sampled_from([0, 0, 1])):       # (else: the previously computed values of the base call, i.e. the same data / expiry objects)
                _draw_prev(draw, c, False, None, c['prev_kraw'] != 'plain')
            else:
                for k in ('prev', 'data_is_input', 'expcol', 'exp_rev', 'empty_as', 'prev_first', 'exp_raw', 'prev_kraw'):
                    c[k] = json.loads(json.dumps(base[k]))
            if c['data_is_input'] and not changed:
                t = [i for i in c['inputs'] if i['name'] == c['data_is_input']][0]
                bt = [i for i in base['inputs'] if i['name'] == c['data_is_input']][0]
                if (t['valcol'], t['extra']) != (bt['valcol'], bt['extra']):      # keep the operand as it is in the other calls
                    t['valcol'], t['extra'] = bt['valcol'], bt['extra']
                    _no_data_is_input(c)
        if api == 'join':
            # join() has no f: no signature defaults, parameters left out are simply not there
            c['inputs'] = [i for i in c['inputs'] if i['kind'] != 'omitted']
            c['sigdefs'] = []
            if c.get('kworder'):
                c['kworder'] = [n for n in c['kworder'] if any(i['name'] == n for i in c['inputs'])]
            if c['renames_form'] == 'str' and len([i for i in c['inputs'] if i['kind'] == 'table']) != 1:
                c['renames_form'] = 'dict'
        if api != 'join' and c['renames_form'] == 'str' and (api == 'expiry' or len([i for i in c['inputs'] if i['kind'] == 'table']) != 1):
            c['renames_form'] = 'dict'
        if api != 'expiry':
            for k in ('prev', 'data_is_input', 'expcol', 'exp_rev', 'empty_as', 'prev_first', 'exp_raw'):
                c.pop(k, None)
        calls.append(dict(api=api, how=how, spec=c))
    if draw(st.booleans()):
        calls.reverse()           # the base call comes last: after the calls with fewer / other operands
    return dict(calls=calls)


def _no_data_is_input(c):
    """the previously computed values stay what they are but are passed as a table of their own"""
    c['data_is_input'] = None


def run_session(spec):
    S = _SESSION[0] = {'#uses': Counter()}
    try:
        nt, rel = False, set()
        for c in spec['calls']:
            {'perd': run_perd, 'join': run_join, 'expiry': run_expiry}[c['api']](c['spec'])
        calls = spec['calls']
        for a, b in zip(calls, calls[1:]):
            ia, ib = [[json.dumps(i, sort_keys=True) for i in x['spec']['inputs'] if i['kind'] != 'omitted'] for x in (a, b)]
            shared = [i for i in ia if i in ib and '"table"' in i]
            if shared:
                rel.add('consecutive_calls_share_a_table_object')
            if a['api'] != b['api']:
                rel.add('api_%s_then_%s' % (a['api'], b['api']))
            if ia == ib and a['api'] == b['api'] and a['spec'].get('kworder') == b['spec'].get('kworder'):
                rel.add('same_operands_again')
            elif ia != ib and sorted(ia) == sorted(ib) or (ia == ib and a['spec'].get('kworder') != b['spec'].get('kworder')):
                rel.add('keyword_order_permuted')
            elif len(ib) < len(ia) and [i for i in ia if i in ib] == ib:
                rel.add('inputs_of_the_previous_call_but_one')
                if ia[:len(ib)] == ib:
                    rel.add('inputs_are_a_prefix_of_the_previous_call')
            elif len(ia) < len(ib) and [i for i in ib if i in ia] == ia:
                rel.add('inputs_extend_the_previous_call')
            elif len(ia) == len(ib) and len([1 for x, y in zip(ia, ib) if x != y]) == 1:
                rel.add('one_operand_replaced')
            if 'expiry' in (a['api'], b['api']) and 'perd' in (a['api'], b['api']) and shared:
                rel.add('with_and_without_previous_values')
            if shared and (ia != ib or a['api'] != b['api'] or a['spec']['fret'] != b['spec']['fret']):
                nt = True
        for x, a in enumerate(calls):
            for b in calls[x + 1:]:
                if json.dumps([a['spec']['defaults'], a['spec']['defaults_form']]) == json.dumps([b['spec']['defaults'], b['spec']['defaults_form']]) and b['spec']['defaults_form'] == 'dict':
                    na = set(i['name'] for i in a['spec']['inputs'] if i['kind'] != 'omitted')
                    if any(i['kind'] == 'table' and i['name'] not in na and i['name'] in [d[0] for d in b['spec']['defaults']] for i in b['spec']['inputs']):
                        rel.add('defaults_dict_first_used_without_an_input_it_names')
        uses = S['#uses']
        cls = ['calls=%i' % len(calls)] + sorted(rel)
        if any(n > 1 for k, n in uses.items() if k.startswith('df:') and not k.startswith('df:[[], ')):
            cls.append('one_defaults_dict_object_for_several_calls')
        if any(n > 1 for k, n in uses.items() if k.startswith('dec:')) and len([k for k in uses if k.startswith('p:')]) > 1:
            cls.append('one_decorator_object_for_two_functions')
        if any(n > 1 for k, n in uses.items() if k.startswith('p:')):
            cls.append('one_lifted_function_called_again')
        if any(n > 1 for k, n in uses.items() if k.startswith('data:') or k.startswith('exp:')):
            cls.append('one_data_or_expiry_table_object_for_several_calls')
        if any(n > 1 for k, n in uses.items() if k.startswith('ind:')):
            cls.append('one_inputs_dict_object_for_several_join_calls')
        dfs = [k for k in uses if k.startswith('df:') and not k.startswith('df:[[], ')]
        apis = set(c['api'] for c in calls)
        if 'join' in apis and len(apis) > 1 and any(uses[k] > 1 for k in dfs):
            cls.append('defaults_dict_passed_to_perdictable_and_to_join')
        return dict(nt=nt, cls=cls)
    finally:
        _SESSION[0] = None


class _SortKey(object):
    def __init__(self, k):
        self.k = k

    def __lt__(self, other):
        return _keycmp(self.k, other.k) < 0


# classes of the second generalisation pass (bug classes 11-20 of the builder brief): floors at about a third of the rates observed over seeds 1-3
_NEW_COMMON = {'sequence_valued_scalar_of_length_0_or_1': 0.008, 'range_valued_scalar': 0.006, 'dict_valued_scalar': 0.02, 'sequence_valued_cell': 0.02,
               'sequence_valued_cell_as_long_as_the_table': 0.008, 'dict_valued_default': 0.018, 'renames_selects_value_column': 0.03, 'one_table_object_for_two_inputs': 0.035,
               'tables_share_key_column_objects': 0.01, 'keys_in_several_raw_types': 0.022, 'one_key_in_two_raw_types_matches': 0.01, 'numeric_only_keys': 0.1,
               'int_beyond_2**53_next_to_float_key': 0.025, 'negative_zero_key': 0.007, 'calendar_boundary_keys': 0.05, 'keys_on_one_day_at_different_times': 0.028}
_NEW_F = {'container_signature_default': 0.03, 'container_signature_default_as_long_as_the_result': 0.011, 'omitted_parameter_takes_signature_default': 0.015,
          'omitted_parameter_with_container_default': 0.003, 'f_shape=kwonly': 0.05, 'f_shape=varargs': 0.024, 'option_include_inputs=True': 0.016,
          'option_output_is_input=False': 0.017, 'option_output_is_input=list': 0.012, 'decorator_object_applied': 0.06}
_NEW_E = {'data_table_is_also_an_input': 0.024, 'expiry_as_timestamp_or_datetime64': 0.055, 'past_expiry_as_datetime64': 0.03, 'expiries_in_several_raw_types': 0.02,
          'sequence_valued_previous_value_kept': 0.017, 'previous_keys_in_other_raw_types': 0.02}
_NEW_S = {'calls=2': 0.2, 'calls=3': 0.07, 'calls=4': 0.06, 'consecutive_calls_share_a_table_object': 0.3, 'defaults_dict_first_used_without_an_input_it_names': 0.012,
          'defaults_dict_passed_to_perdictable_and_to_join': 0.06, 'inputs_of_the_previous_call_but_one': 0.05, 'inputs_are_a_prefix_of_the_previous_call': 0.035, 'inputs_extend_the_previous_call': 0.035,
          'keyword_order_permuted': 0.05, 'one_data_or_expiry_table_object_for_several_calls': 0.04, 'one_decorator_object_for_two_functions': 0.07,
          'one_defaults_dict_object_for_several_calls': 0.14, 'one_inputs_dict_object_for_several_join_calls': 0.017, 'one_lifted_function_called_again': 0.2,
          'one_operand_replaced': 0.065, 'same_operands_again': 0.11, 'with_and_without_previous_values': 0.1}

_RULE = ('1-4 inputs (plain names a, y, c, z or nested names a, aa, ka, data_a) in any order, each a scalar or a table with unique keys over 1-2 key columns (k, j, m or k, kk, k_a in any order; '
         'cells from an int / string / datetime / int+string / None+NaN+int+float+string universe of 3-6 values so that overlapping, disjoint and empty key sets all occur; tables also as re-orderings of one '
         'another, with equal ends and other middles, pre-sorted), ~8% large cases (int keys 0..250, 64/65/100/128/200 rows, one table up to 8x longer, cyclic values), value column named after '
         'the input / "data" / sole other column plus look-alike extra columns, rows in arbitrary order; any subset of inputs with a default (also for absent inputs, any order, falsy values), f with signature defaults on any subset of its parameters combined with defaults = None (they are the defaults) or an explicit dict naming other / overlapping / no parameters (only the dict counts); on / defaults by keyword or position; '
         'f returns a tuple of its arguments, its first argument, None, 0, "", False or []; half of the cases are evaluated a second time after overwriting the first result. '
         'Second pass: key universes of numbers only (2**53+1 next to 2.0**53, NaN, -0.0) and of calendar boundary datetimes (same day at two times); ~1 case in 7 spells keys as numpy scalars / floats / datetime64 per table; '
         'one table object for two inputs, shared key column objects, cells that are lists / tuples (also as long as the table), non-table inputs that are ranges, dicts, sequences of length 0-1; dict defaults; '
         'value column named by renames (dict or string); f with keyword-only parameters or *rest, parameters with a signature default left out, container signature defaults; '
         'include_inputs / output_is_input options, decorator form. ')

SUBS = [
    Sub('perdictable', lambda tier: _case(tier, 'perd'), run_perd, quick=3000, thorough=12000,
        rule=_RULE + 'Oracle: key-set algebra (intersection of the tables without default, else union of those with default), rows ascending by key, value = f(row) with f '
             'a recording closure, f called exactly once per row (multiset of argument tuples), all scalars -> f(...) itself, empty key set -> None or no rows. '
             'non-trivial = >= 2 tables with non-empty non-total overlap, or a default that fills a missing key',
        floor=0.15, class_floors={'sequence_valued_scalar': 0.05, 'sequence_valued_scalar_as_long_as_the_result': 0.015, 'partial_overlap': 0.1, 'default_extends_keys': 0.03, 'all_scalars': 0.02, 'empty_result': 0.03, 'on_not_alphabetical': 0.1,
                                  'disjoint_tables': 0.01, 'empty_table': 0.03, 'scalar_broadcast': 0.15, 'rows>=3': 0.2, 'nan_key': 0.03,
                                  'large': 0.04, 'large_result>=64': 0.02, 'one_table_8x_longer': 0.008, 'same_keyset_other_order': 0.04,
                                  'same_keyset_same_ends_other_order': 0.005, 'same_length_same_ends_other_keys': 0.005, 'table_presorted': 0.1,
                                  'table_ends_in_order_middle_not': 0.02, 'names_nested': 0.3, 'f_returns_falsy': 0.25, 'f_returns=none': 0.04, 'second_call': 0.2,
                                  'rows_with_equal_args': 0.08, 'falsy_default_fills_row': 0.01, 'default_for_absent_input': 0.1, 'positional': 0.2,
                                  'one_row_table': 0.08, 'inputs=1': 0.08, 'inputs=4': 0.05, 'falsy_key': 0.2, 'ties_in_first_key_column': 0.15,
                                  'defaults_in_other_order_than_inputs': 0.01, 'empty_table_in_the_middle': 0.002,
                                  'signature_default_not_in_explicit_defaults': 0.08, 'ignored_signature_default_would_change_the_keys': 0.03,
                                  'signature_defaults_are_the_defaults': 0.05, 'signature_default_fills_row': 0.01, 'sigdefs+explicit_empty': 0.04,
                                  'sigdefs+explicit_other_params': 0.03, 'sigdefs+explicit_overlapping': 0.02, 'valcol=self+data': 0.05}),
    Sub('join', lambda tier: _case(tier, 'join'), run_join, quick=3000, thorough=12000,
        rule=_RULE + 'join(inputs, on, defaults = ...) against the same key-set model: exact key set, ascending order, one column per input holding the table value / default / '
             'broadcast scalar. non-trivial as for perdictable',
        floor=0.15, class_floors={'sequence_valued_scalar': 0.05, 'sequence_valued_scalar_as_long_as_the_result': 0.015, 'partial_overlap': 0.1, 'default_extends_keys': 0.02, 'empty_result': 0.03, 'on_not_alphabetical': 0.1, 'scalar_broadcast': 0.15,
                                  'valcol=self+data': 0.05, 'rows>=3': 0.2, 'large': 0.04, 'large_result>=64': 0.02, 'one_table_8x_longer': 0.008, 'same_keyset_other_order': 0.04,
                                  'same_keyset_same_ends_other_order': 0.005, 'same_length_same_ends_other_keys': 0.005, 'table_presorted': 0.1, 'names_nested': 0.3,
                                  'second_call': 0.2, 'falsy_default_fills_row': 0.01, 'default_for_absent_input': 0.1, 'positional': 0.2, 'falsy_key': 0.2}),
    Sub('expiry', lambda tier: _case(tier, 'expiry'), run_expiry, quick=3000, thorough=12000,
        rule=_RULE + 'At least one table without default. A data table over a subset P of the joined keys (plus, sometimes, stale keys; values incl. None, 0, "", 0.0, False) and an expiry table giving each key of P '
             'one of absent / None / a past datetime (year 1-2000) / a future datetime (2999-9999); data / expiry as first or last keyword arguments. Oracle: past keys keep the supplied value and are absent from the call log, '
             'all other keys hold f(row) and f was called exactly once for each. non-trivial = as above, or >= 3 distinct expiry kinds among the keys of P',
        floor=0.2, class_floors={'expiry_kinds>=3': 0.05, 'stale_previous_keys': 0.02, 'default_extends_keys': 0.03,
                                 'kind=past': 0.2, 'kind=future': 0.1, 'kind=none': 0.1, 'kind=absent': 0.1, 'kind=not_computed_before': 0.2,
                                 'old=none/past': 0.04, 'old=none/future': 0.02, 'old=none/none': 0.02, 'old=none/absent': 0.02,
                                 'old=falsy/past': 0.04, 'old=falsy/future': 0.02, 'old=falsy/none': 0.02, 'old=falsy/absent': 0.02,
                                 'data_expiry_first_kwargs': 0.1, 'extreme_date': 0.08, 'first_row_past': 0.08, 'last_row_past': 0.08, 'all_rows_past': 0.03,
                                 'f_returns_falsy_and_past_rows': 0.07, 'large': 0.04, 'large_result>=64': 0.02, 'second_call': 0.15, 'names_nested': 0.3,
                                 'signature_default_not_in_explicit_defaults': 0.08, 'ignored_signature_default_would_change_the_keys': 0.03,
                                 'signature_defaults_are_the_defaults': 0.04, 'signature_default_fills_row': 0.005}),
    Sub('session', lambda tier: _session_case(tier), run_session, quick=500, thorough=3000,
        rule='a base case as in expiry (no large tables; in half of the cases one more defaulted table) and 1-3 variants of it - the same again, other keyword order, one input fewer (preferably a defaulted one), '
             'one table shortened, one input replaced by a scalar, another function from the same factory, other options - each through perdictable, perdictable with data / expiry, or join, in either order; '
             'the operand tables, the on list, the renames / defaults / inputs dicts, the data / expiry tables, the decorator object and the lifted functions are built ONCE per session and shared by all calls that spell them alike. '
             'Every call is judged by the oracle of its own sub-check on the original content of the containers, so no call may depend on what was computed or passed before. '
             'non-trivial = two consecutive calls share a table object and differ in inputs, entry point or function',
        floor=0.2, class_floors={}),
]
for _s in SUBS:
    _s.qshards = 8
SUBS[3].qshards = 4
SUBS[0].class_floors.update(_NEW_COMMON); SUBS[0].class_floors.update(_NEW_F); SUBS[0].class_floors['renames_as_string'] = 0.003
SUBS[1].class_floors.update(_NEW_COMMON); SUBS[1].class_floors['renames_as_string'] = 0.0015
SUBS[2].class_floors.update(_NEW_COMMON); SUBS[2].class_floors.update(_NEW_F); SUBS[2].class_floors.update(_NEW_E)
SUBS[3].class_floors.update(_NEW_S)
