# -*- coding: utf-8 -*-
"""
C14 - eq is a NaN-aware, type-strict equivalence on values, containers, numpy arrays and pandas objects.

Sub-checks
    pairs        laws on arbitrary pairs: never raises, boolean, reflexive, symmetric, agrees with == on plain NaN-free values, in_ agrees
    copy_near    eq(x, structural copy with fresh NaN objects) is True; eq(x, near miss) is False (both directions)
    triples      transitivity on triples built from value-equal twins, copies and near misses
    pool_cube    (thorough) every pair and triple of a fixed pool, exhaustive
"""
import datetime

import numpy as np
import pandas as pd
from hypothesis import strategies as st

from pv.core import Sub, EnumSub, Violation, call, check, short
from pv.codec import build as build_scalar, Env, D0, mkdt

ASSUMPTIONS = [
    'dict keys are strings; nesting depth <= 3; numbers are small (|x| < 2**24) so that ==, which eq agrees with, is itself transitive across int/float/float32',
    'transitivity is claimed over instants of one resolution class: datetime, pandas.Timestamp, numpy.datetime64[s|us]; datetime.date and datetime64[D] take part in the '
    'pair laws only, because numpy makes date == datetime64[D] == datetime64[s] == datetime while date != datetime, and eq agrees with == on plain values by the statement',
    'arrays of different dtype but equal cells: neither outcome is demanded (the statement gives only necessary conditions); near misses change shape, a cell, or the container type',
    'Series names and index names are not part of the claim (index, columns and cells are)',
    'pandas.NaT appears only as a scalar (a singleton, so identity decides) - datetime arrays holding NaT are outside the universe',
]

# ----------------------------------------------------------------------------- builder


def build(v, env):
    if isinstance(v, list) and v:
        tag = v[0]
        if tag in ('list', 'tuple'):
            res = [build(x, env) for x in v[1]]
            return res if tag == 'list' else tuple(res)
        if tag in ('dict', 'Dict', 'dictattr'):
            d = {k: build(x, env) for k, x in v[1]}
            if tag == 'dict':
                return d
            import pyg_base
            return getattr(pyg_base, tag)(d)
        if tag == 'arr':
            dtype, shape, flat = v[1], v[2], v[3]
            vals = [build(x, env) for x in flat]
            if dtype == 'object':
                a = np.empty(len(vals), dtype=object)
                for i, x in enumerate(vals):
                    a[i] = x
            else:
                a = np.array(vals, dtype=dtype)
            return a.reshape(shape)
        if tag == 'series':
            idx, vals = _index(v[1]), [build(x, env) for x in v[2]]
            return pd.Series(vals, index=idx, dtype=v[3])
        if tag == 'df':
            idx = _index(v[1])
            rows = [[build(x, env) for x in row] for row in v[3]]
            return pd.DataFrame(rows, index=idx, columns=list(v[2]), dtype='float64') if len(v[2]) else pd.DataFrame(index=idx)
    return build_scalar(v, env)


def _index(spec):
    if spec[0] == 'range':
        return pd.RangeIndex(spec[1])
    return pd.DatetimeIndex([mkdt(o) for o in spec[1]])


# ----------------------------------------------------------------------------- strategies

_nan = st.integers(0, 1).map(lambda k: ['nan', k])
_inst = st.tuples(st.sampled_from(['dt', 'ts', 'dt64s', 'dt64us']), st.integers(D0, D0 + 2), st.sampled_from([0, 3600])).map(
    lambda t: [t[0], t[1], t[2]] if t[0] in ('dt', 'ts') else ['dt64', t[1], t[2], t[0][4:]])
_daylike = st.one_of(st.integers(D0, D0 + 2).map(lambda o: ['date', o]), st.integers(D0, D0 + 2).map(lambda o: ['dt64', o, 0, 'D']))
_npsc = st.one_of(
    st.integers(0, 2).map(lambda i: ['np', 'int64', i]),
    st.sampled_from([0.0, 1.0, 2.5]).map(lambda f: ['np', 'float64', f]),
    st.sampled_from([0.0, 1.0, 2.5]).map(lambda f: ['np', 'float32', f]),
    st.just(['np', 'float64', ['nan', 0]]), st.just(['np', 'float32', ['nan', 1]]),
    st.booleans().map(lambda b: ['np', 'bool_', b]),
    st.sampled_from(['a', 'b']).map(lambda s: ['np', 'str_', s]))
_plain_scalar = st.one_of(st.none(), st.booleans(), st.integers(0, 2), st.sampled_from([0.0, 1.0, 2.5]), st.sampled_from(['', 'a', 'b', '1']))
_scalar = st.one_of(_plain_scalar, _plain_scalar, _nan, st.sampled_from([['inf', 1], ['inf', -1]]), _inst, _npsc, st.just(['nat']))
_scalar_all = st.one_of(_scalar, _daylike)

_SHAPES = [[0], [1], [2], [1, 1], [2, 1], [1, 2], [2, 2], [0, 2], [2, 3], []]


def _prod(shape):
    n = 1
    for s in shape:
        n *= s
    return n


@st.composite
def _arr(draw, inner=None):
    shape = draw(st.sampled_from(_SHAPES))
    n = _prod(shape)
    dtype = draw(st.sampled_from(['int64', 'float64', 'object', 'str', 'datetime64[s]'] if inner is not None else ['int64', 'float64', 'str', 'datetime64[s]']))
    if dtype == 'int64':
        flat = draw(st.lists(st.integers(0, 2), min_size=n, max_size=n))
    elif dtype == 'float64':
        flat = draw(st.lists(st.one_of(st.sampled_from([0.0, 1.0, 2.5]), _nan), min_size=n, max_size=n))
    elif dtype == 'str':
        flat = draw(st.lists(st.sampled_from(['a', 'b', '']), min_size=n, max_size=n))
        dtype = '<U2'
    elif dtype == 'datetime64[s]':
        flat = draw(st.lists(st.integers(D0, D0 + 2).map(lambda o: ['dt', o, 0]), min_size=n, max_size=n))
    else:
        flat = draw(st.lists(inner, min_size=n, max_size=n))
    return ['arr', dtype, shape, flat]


@st.composite
def _pandas(draw):
    n = draw(st.integers(0, 3))
    idx = draw(st.one_of(st.just(['range', n]), st.lists(st.integers(D0, D0 + 5), min_size=n, max_size=n, unique=True).map(lambda o: ['dates', sorted(o)]),
                         # labels need not be unique nor sorted: "equal only if index, columns and all cells match" is about positions
                         st.lists(st.integers(D0, D0 + 1), min_size=n, max_size=n).map(lambda o: ['dates', o])))
    cell = st.one_of(st.sampled_from([0.0, 1.0, 2.5]), _nan)
    if draw(st.booleans()):
        kind = draw(st.sampled_from(['float64', 'float64', 'int64', 'object']))
        if kind == 'int64':
            vals = draw(st.lists(st.integers(0, 2), min_size=n, max_size=n))
        elif kind == 'object':
            vals = draw(st.lists(st.one_of(st.sampled_from(['a', 'b']), st.none(), st.integers(0, 2)), min_size=n, max_size=n))
        else:
            vals = draw(st.lists(cell, min_size=n, max_size=n))
        return ['series', idx, vals, kind]
    cols = draw(st.one_of(st.lists(st.sampled_from(['a', 'b', 'c']), min_size=0, max_size=3, unique=True), st.lists(st.sampled_from(['a', 'a', 'b']), min_size=2, max_size=3)))
    rows = [[draw(cell) for _ in cols] for _ in range(n)]
    return ['df', idx, cols, rows]


def _containers(inner):
    keys = st.sampled_from(['a', 'b', 'c'])
    items = st.lists(st.tuples(keys, inner).map(list), max_size=3, unique_by=lambda kv: kv[0])
    return st.one_of(
        st.lists(inner, max_size=3).map(lambda v: ['list', v]),
        st.lists(inner, max_size=3).map(lambda v: ['tuple', v]),
        items.map(lambda v: ['dict', v]), items.map(lambda v: ['Dict', v]), items.map(lambda v: ['dictattr', v]),
        _arr(inner))


_leafy = st.one_of(_scalar_all, _arr(), _pandas())
_l1 = st.one_of(_leafy, _containers(_leafy))
_value = st.one_of(_leafy, _containers(_leafy), _containers(_l1), _containers(st.one_of(_l1, _containers(_l1))))

# ----------------------------------------------------------------------------- spec-level analysis and mutation

CONT = ('list', 'tuple', 'dict', 'Dict', 'dictattr', 'arr', 'series', 'df')


def tag(v):
    if isinstance(v, list) and v:
        return v[0]
    return 'scalar'


def has(v, pred):
    if pred(v):
        return True
    t = tag(v)
    if t in ('list', 'tuple'):
        return any(has(x, pred) for x in v[1])
    if t in ('dict', 'Dict', 'dictattr'):
        return any(has(x, pred) for _, x in v[1])
    if t == 'arr':
        return any(has(x, pred) for x in v[3])
    if t == 'series':
        return any(has(x, pred) for x in v[2])
    if t == 'df':
        return any(has(x, pred) for row in v[3] for x in row)
    if t == 'np':
        return has(v[2], pred)
    return False


def has_nan(v):
    return has(v, lambda x: tag(x) == 'nan')


def is_plain(v):
    """NaN-free scalars / lists / tuples / exact dicts of python types only"""
    t = tag(v)
    if t == 'scalar':
        return True
    if t in ('list', 'tuple'):
        return all(is_plain(x) for x in v[1])
    if t == 'dict':
        return all(is_plain(x) for _, x in v[1])
    return False


def _scalar_twins(v):
    """specs of scalars that == v by value (used to make equal-but-differently-typed pairs frequent)"""
    if isinstance(v, bool):
        return [int(v), float(v), ['np', 'bool_', v], ['np', 'int64', int(v)]]
    if isinstance(v, int):
        return [float(v), ['np', 'int64', v], ['np', 'float64', float(v)], ['np', 'float32', float(v)]] + ([bool(v)] if v in (0, 1) else [])
    if isinstance(v, float):
        return [['np', 'float64', v], ['np', 'float32', v]] + ([int(v)] if v == int(v) else [])
    if isinstance(v, str):
        return [['np', 'str_', v]]
    t = tag(v)
    if t == 'nan':
        return [['nan', 1 - v[1]], ['np', 'float64', ['nan', 0]], ['np', 'float32', ['nan', 1]]]
    if t in ('dt', 'ts'):
        return [['dt', v[1], v[2]], ['ts', v[1], v[2]], ['dt64', v[1], v[2], 's'], ['dt64', v[1], v[2], 'us']]
    if t == 'dt64' and v[3] in ('s', 'us'):
        return [['dt', v[1], v[2]], ['ts', v[1], v[2]], ['dt64', v[1], v[2], 's'], ['dt64', v[1], v[2], 'us']]
    if t == 'np':
        return [v[2]] + _scalar_twins(v[2])
    return []


def _different_leaf(v):
    """a scalar spec that is definitely not equal to scalar spec v"""
    if v is None:
        return 0
    if isinstance(v, bool):
        return not v
    if isinstance(v, int):
        return v + 3
    if isinstance(v, float):
        return v + 3.5
    if isinstance(v, str):
        return v + 'x'
    t = tag(v)
    if t == 'nan':
        return 0.0
    if t == 'inf':
        return ['inf', -v[1]]
    if t in ('dt', 'ts'):
        return [t, v[1] + 7, v[2]]
    if t == 'date':
        return ['date', v[1] + 7]
    if t == 'dt64':
        return ['dt64', v[1] + 7, v[2], v[3]]
    if t == 'nat':
        return ['ts', D0, 0]
    if t == 'np':
        return ['np', v[1], _different_leaf(v[2])] if v[1] not in ('float64', 'float32') or tag(v[2]) != 'nan' else ['np', v[1], 0.0]
    raise ValueError(v)


def _mutations(v, path=()):
    """all (kind, mutated spec) candidates obtained by ONE definite change somewhere in v"""
    out = []
    t = tag(v)

    def sub(children, rebuild):
        for i, c in enumerate(children):
            for kind, m in _mutations(c):
                out.append((kind, rebuild(i, m)))
    if t == 'scalar' or t in ('nan', 'inf', 'dt', 'ts', 'date', 'dt64', 'nat', 'np'):
        out.append(('leaf', _different_leaf(v)))
        out.append(('wrap_list', ['list', [v]]))
        out.append(('wrap_tuple', ['tuple', [v]]))
        if t == 'scalar' and isinstance(v, (int, float)) and not isinstance(v, bool):
            out.append(('wrap_arr', ['arr', 'float64' if isinstance(v, float) else 'int64', [1], [v]]))
            out.append(('wrap_arr0d', ['arr', 'float64' if isinstance(v, float) else 'int64', [], [v]]))
        if v is None:
            out.append(('none_vs_empty_arr', ['arr', 'float64', [0], []]))
            out.append(('none_vs_empty_list', ['list', []]))
        return out
    if t in ('list', 'tuple'):
        out.append(('ctype', ['tuple' if t == 'list' else 'list', v[1]]))
        out.append(('len', [t, v[1] + [0]]))
        if v[1]:
            out.append(('len', [t, v[1][:-1]]))
            if all(isinstance(x, int) and not isinstance(x, bool) for x in v[1]):
                out.append(('ctype_arr', ['arr', 'int64', [len(v[1])], v[1]]))
            if all(isinstance(x, float) for x in v[1]):
                out.append(('ctype_arr', ['arr', 'float64', [len(v[1])], v[1]]))
        sub(v[1], lambda i, m: [t, v[1][:i] + [m] + v[1][i + 1:]])
        return out
    if t in ('dict', 'Dict', 'dictattr'):
        for other in ('dict', 'Dict', 'dictattr'):
            if other != t:
                out.append(('ctype', [other, v[1]]))
        out.append(('key_added', [t, v[1] + [['zz', 0]]]))
        if v[1]:
            out.append(('key_removed', [t, v[1][:-1]]))
            out.append(('key_renamed', [t, v[1][:-1] + [[v[1][-1][0] + 'z', v[1][-1][1]]]]))
        sub([x for _, x in v[1]], lambda i, m: [t, v[1][:i] + [[v[1][i][0], m]] + v[1][i + 1:]])
        return out
    if t == 'arr':
        dtype, shape, flat = v[1], v[2], v[3]
        n = len(flat)
        for alt in ([n], [n, 1], [1, n], [1, n, 1]):
            if alt != shape and not (n == 0 and 0 not in alt):
                out.append(('reshape', ['arr', dtype, alt, flat]))
        if n == 0:
            out.append(('reshape', ['arr', dtype, [0, 3] if shape != [0, 3] else [0], flat]))
        if len(shape) == 1 and dtype in ('int64', 'float64') and not any(tag(x) == 'nan' for x in flat):
            out.append(('ctype', ['list', flat]))
            out.append(('ctype', ['tuple', flat]))
        if n == 1:
            out.append(('unwrap', flat[0]))
        sub(flat, lambda i, m: ['arr', dtype if dtype == 'object' else _mut_dtype(dtype, m), shape, flat[:i] + [m] + flat[i + 1:]])
        out[:] = [(k, m) for k, m in out if _arr_ok(m)]
        return out
    if t == 'series':
        idx, vals, dtype = v[1], v[2], v[3]
        n = len(vals)
        if n:
            out.append(('index', ['series', _shift_index(idx), vals, dtype]))
            out.append(('to_array', ['arr', 'float64', [n], vals]) if dtype == 'float64' else ('index', ['series', _shift_index(idx), vals, dtype]))
            out.append(('to_frame', ['df', idx, ['a'], [[x] for x in vals]]) if dtype == 'float64' else ('index', ['series', _shift_index(idx), vals, dtype]))
            for i, c in enumerate(vals):
                if dtype == 'float64':
                    out.append(('cell', ['series', idx, vals[:i] + [0.0 if tag(c) == 'nan' else c + 3.5] + vals[i + 1:], dtype]))
                    out.append(('cell_to_nan', ['series', idx, vals[:i] + [['nan', 0]] + vals[i + 1:], dtype])) if tag(c) != 'nan' else None
                elif dtype == 'int64':
                    out.append(('cell', ['series', idx, vals[:i] + [c + 3] + vals[i + 1:], dtype]))
                else:
                    out.append(('cell', ['series', idx, vals[:i] + ['zz'] + vals[i + 1:], dtype]))
        out.append(('length', ['series', _grow_index(idx), vals + [1.0 if dtype == 'float64' else 1], dtype]))
        return out
    if t == 'df':
        idx, cols, rows = v[1], v[2], v[3]
        n = len(rows)
        if n:
            out.append(('index', ['df', _shift_index(idx), cols, rows]))
        if cols:
            out.append(('columns', ['df', idx, cols[:-1] + [cols[-1] + 'z'], rows]))
            out.append(('columns_dropped', ['df', idx, cols[:-1], [r[:-1] for r in rows]]))
            if len(cols) >= 2 and cols[0] != cols[1]:
                out.append(('columns_swapped', ['df', idx, [cols[1], cols[0]] + cols[2:], rows]))
            for i, r in enumerate(rows):
                for j, c in enumerate(r):
                    nr = [list(x) for x in rows]
                    nr[i][j] = 0.0 if tag(c) == 'nan' else c + 3.5
                    out.append(('cell', ['df', idx, cols, nr]))
        out.append(('length', ['df', _grow_index(idx), cols, rows + [[1.0] * len(cols)]]))
        return out
    raise ValueError(v)


def _mut_dtype(dtype, m):
    return dtype


def _arr_ok(m):
    """typed arrays must still be buildable after a leaf mutation (e.g. an int array cannot hold a wrapped list)"""
    if tag(m) != 'arr' or m[1] == 'object':
        return True
    for x in m[3]:
        t = tag(x)
        if m[1] == 'int64' and not (isinstance(x, int) and not isinstance(x, bool)):
            return False
        if m[1] == 'float64' and not (isinstance(x, float) or t == 'nan'):
            return False
        if m[1] == '<U2' and not (isinstance(x, str) and len(x) <= 2):
            return False
        if m[1] == 'datetime64[s]' and t != 'dt':
            return False
    return True


def _shift_index(idx):
    if idx[0] == 'range':
        return ['dates', [D0 + i for i in range(idx[1])]]
    return ['dates', [o + 10 for o in idx[1]]]


def _grow_index(idx):
    if idx[0] == 'range':
        return ['range', idx[1] + 1]
    return ['dates', idx[1] + [max(idx[1] + [D0]) + 20]]


def _twin(v, pick):
    """value-equal twin of v: one scalar leaf replaced by an equal scalar of another type (or v itself when there is none)"""
    t = tag(v)
    if t in ('list', 'tuple') and v[1]:
        i = pick % len(v[1])
        return [t, v[1][:i] + [_twin(v[1][i], pick // 7)] + v[1][i + 1:]]
    if t in ('dict', 'Dict', 'dictattr') and v[1]:
        i = pick % len(v[1])
        return [t, v[1][:i] + [[v[1][i][0], _twin(v[1][i][1], pick // 7)]] + v[1][i + 1:]]
    if t == 'arr' and v[1] == 'object' and v[3]:
        i = pick % len(v[3])
        return ['arr', 'object', v[2], v[3][:i] + [_twin(v[3][i], pick // 7)] + v[3][i + 1:]]
    tw = _scalar_twins(v) if t not in CONT else []
    return tw[pick % len(tw)] if tw else v


# ----------------------------------------------------------------------------- oracles

def _eq(what, x, y):
    from pyg_base import eq
    r = call('eq(%s)' % what, eq, x, y)
    check(isinstance(r, (bool, np.bool_)), 'eq(%s) returned %s of type %s, not a boolean', what, r, type(r).__name__)
    return bool(r)


def _classes(*specs):
    cls = set()
    for v in specs:
        cls.add('top=' + tag(v))
        if has_nan(v):
            cls.add('nan')
        if has(v, lambda x: tag(x) in ('series', 'df')):
            cls.add('pandas')
        if has(v, lambda x: tag(x) == 'df' and len(set(x[2])) < len(x[2])):
            cls.add('duplicate_column_labels')
        if has(v, lambda x: tag(x) in ('series', 'df') and x[1][0] == 'dates' and len(set(x[1][1])) < len(x[1][1])):
            cls.add('duplicate_index_labels')
        if has(v, lambda x: tag(x) == 'arr'):
            cls.add('array')
        if tag(v) in CONT and has(v, lambda x: x is not v and tag(x) in CONT):
            cls.add('nested')
    return sorted(cls)


def run_pairs(spec):
    from pyg_base import in_
    vx, vy = spec['x'], spec['y']
    if spec.get('mut') is not None:
        ms = _mutations(vx)
        vy = ms[spec['mut'] % len(ms)][1]
    env = Env()
    x, y = build(vx, env), build(vy, env)
    sx, sy = short(x, 120), short(y, 120)
    rxx = _eq('%s, itself' % sx, x, x)
    check(rxx, 'eq(x, x) is False for x = %s', x)
    ryy = _eq('%s, itself' % sy, y, y)
    check(ryy, 'eq(y, y) is False for y = %s', y)
    rxy = _eq('%s, %s' % (sx, sy), x, y)
    ryx = _eq('%s, %s' % (sy, sx), y, x)
    check(rxy == ryx, 'eq is not symmetric: eq(%s, %s) = %s but the reverse = %s', x, y, rxy, ryx)
    plain = is_plain(vx) and is_plain(vy)
    if plain:
        exp = bool(x == y)
        check(rxy == exp, 'eq(%s, %s) = %s but on NaN-free plain values == gives %s', x, y, rxy, exp)
    r_in = call('in_(%s, [None, %s])' % (sx, sy), in_, x, [['unrelated'], y])
    check(bool(r_in) == rxy, 'in_(%s, [.., %s]) = %s but eq says %s', x, y, r_in, rxy)
    if tag(vx) in CONT and tag(vy) in CONT and tag(vx) != tag(vy):
        check(not rxy, 'eq(%s, %s) is True although the container types differ (%s vs %s)', x, y, type(x).__name__, type(y).__name__)
    if (tag(vx) in CONT) != (tag(vy) in CONT):
        check(not rxy, 'eq(%s, %s) is True although one is a %s and the other a scalar', x, y, type(x if tag(vx) in CONT else y).__name__)
    nt = tag(vx) in CONT or tag(vy) in CONT or has_nan(vx) or has_nan(vy)
    cls = _classes(vx, vy) + ['equal' if rxy else 'unequal'] + (['plain'] if plain else [])
    return dict(nt=nt, cls=cls)


def _reorder(v):
    """the same value with every dict written in reverse insertion order"""
    t = tag(v)
    if t in ('list', 'tuple'):
        return [t, [_reorder(x) for x in v[1]]]
    if t in ('dict', 'Dict', 'dictattr'):
        return [t, [[k, _reorder(x)] for k, x in v[1]][::-1]]
    if t == 'arr' and v[1] == 'object':
        return ['arr', 'object', v[2], [_reorder(x) for x in v[3]]]
    return v


def run_copy_near(spec):
    vx = spec['x']
    vr = _reorder(vx)
    if vr != vx:
        a, b = build(vx, Env()), build(vr, Env())
        check(_eq('%s, the same with dict keys inserted in reverse order' % short(a, 150), a, b) and _eq('reverse order first', b, a),
              'eq is False for %s and the same value with its dicts written in reverse key order', a)
    ms = _mutations(vx)
    kind, vm = ms[spec['mut'] % len(ms)]
    x = build(vx, Env())
    c = build(vx, Env())          # fresh NaN objects, fresh containers
    sx = short(x, 150)
    check(_eq('%s, structural copy' % sx, x, c), 'eq(x, copy of x) is False for x = %s', x)
    check(_eq('structural copy, %s' % sx, c, x), 'eq(copy of x, x) is False for x = %s', x)
    m = build(vm, Env())
    sm = short(m, 150)
    check(not _eq('%s, %s' % (sx, sm), x, m), 'eq(%s, %s) is True although they differ (%s)', x, m, kind)
    check(not _eq('%s, %s' % (sm, sx), m, x), 'eq(%s, %s) is True although they differ (%s)', m, x, kind)
    cls = _classes(vx) + ['near=' + kind] + (['dict_key_order_permuted'] if vr != vx else [])
    return dict(nt=tag(vx) in CONT or has_nan(vx), cls=cls)


_DAYLIKE = lambda x: tag(x) == 'date' or (tag(x) == 'dt64' and x[3] == 'D')


def run_triples(spec):
    vx = spec['x']
    vs = [vx]
    for how, pick in spec['derive']:
        if how == 'copy':
            vs.append(vx)
        elif how == 'twin':
            vs.append(_twin(vx, pick))
        elif how == 'twin2':
            vs.append(_twin(_twin(vx, pick), pick // 3 + 1))
        elif how == 'near':
            ms = _mutations(vx)
            vs.append(ms[pick % len(ms)][1])
        else:
            vs.append(spec['other'])
    vals = [build(v, Env()) for v in vs]
    r = {}
    for i in range(3):
        for j in range(3):
            r[i, j] = _eq('%s, %s' % (short(vals[i], 100), short(vals[j], 100)), vals[i], vals[j])
    for i in range(3):
        check(r[i, i], 'eq(x, x) False for %s', vals[i])
        for j in range(3):
            check(r[i, j] == r[j, i], 'eq not symmetric on %s vs %s: %s / %s', vals[i], vals[j], r[i, j], r[j, i])
    daylike = any(has(v, _DAYLIKE) for v in vs)
    if not daylike:
        for i in range(3):
            for j in range(3):
                for k in range(3):
                    if r[i, j] and r[j, k]:
                        check(r[i, k], 'eq is not transitive: %s ~ %s ~ %s but eq(first, last) is False', vals[i], vals[j], vals[k])
    ntrue = sum(1 for i in range(3) for j in range(3) if i < j and r[i, j])
    cls = _classes(*vs) + ['equal_pairs=%i' % ntrue] + (['daylike_skipped'] if daylike else [])
    return dict(nt=ntrue >= 1 and len(set(map(repr, vs))) >= 2, cls=cls)


# ----------------------------------------------------------------------------- large values (size-dependent paths)

_large = st.fixed_dictionaries(dict(kind=st.sampled_from(['list', 'tuple', 'arr_f', 'arr_i', 'arr_o', 'arr_2d', 'series', 'df', 'dict', 'list_of_lists']),
                                    n=st.sampled_from([40, 64, 100, 128, 257]), nan_every=st.sampled_from([0, 1, 3, 7]), pos=st.integers(0, 10 ** 6),
                                    how=st.sampled_from(['cell', 'cell', 'cell_to_nan', 'drop_last'])))


def _large_spec(kind, n, nan_every, pos=None, how=None):
    def cell(i):
        if nan_every and i % nan_every == 0 and kind not in ('arr_i',):
            return ['nan', i % 2]
        return float(i % 5) if kind != 'arr_i' else i % 5
    if kind in ('arr_2d', 'df'):
        n = n - n % 2
        if how == 'drop_last':
            how = 'cell'        # dropping one cell of a 2-column block is not expressible; change a cell instead
    cells = [cell(i) for i in range(n)]
    if pos is not None:
        i = pos % n
        if how == 'drop_last':
            cells = cells[:-1]
        elif how == 'cell_to_nan' and kind != 'arr_i' and not (isinstance(cells[i], list)):
            cells[i] = ['nan', 0]
        else:
            cells[i] = 9.5 if kind != 'arr_i' else 9
    m = len(cells)
    if kind in ('list', 'tuple'):
        return [kind, cells]
    if kind == 'arr_f':
        return ['arr', 'float64', [m], cells]
    if kind == 'arr_i':
        return ['arr', 'int64', [m], cells]
    if kind == 'arr_o':
        return ['arr', 'object', [m], cells]
    if kind == 'arr_2d':
        m2 = m - m % 2
        return ['arr', 'float64', [m2 // 2, 2], cells[:m2]]
    if kind == 'series':
        return ['series', ['range', m], cells, 'float64']
    if kind == 'df':
        m2 = m - m % 2
        return ['df', ['range', m2 // 2], ['a', 'b'], [cells[2 * r:2 * r + 2] for r in range(m2 // 2)]]
    if kind == 'dict':
        return ['dict', [['k%03i' % i, c] for i, c in enumerate(cells)]]
    return ['list', [['list', cells[i:i + 4]] for i in range(0, m, 4)]]


def run_large(spec):
    vx = _large_spec(spec['kind'], spec['n'], spec['nan_every'])
    vm = _large_spec(spec['kind'], spec['n'], spec['nan_every'], spec['pos'], spec['how'])
    x, c, m = build(vx, Env()), build(vx, Env()), build(vm, Env())
    what = '%s of %i cells (NaN every %i)' % (spec['kind'], spec['n'], spec['nan_every'])
    check(_eq('%s, itself' % what, x, x), 'eq(x, x) is False for a %s', what)
    check(_eq('%s, structural copy' % what, x, c) and _eq('structural copy, %s' % what, c, x), 'eq(x, copy of x) is False for a %s', what)
    check(not _eq('%s, one change (%s)' % (what, spec['how']), x, m) and not _eq('one change, %s' % what, m, x),
          'eq is True for a %s and the same with one change (%s at %s)', what, spec['how'], spec['pos'] % spec['n'])
    return dict(nt=True, cls=['kind=' + spec['kind'], 'n=%i' % spec['n'], 'nan' if spec['nan_every'] else 'nan_free', 'how=' + spec['how']])


_pair = st.one_of(
    st.tuples(_value, _value).map(lambda t: dict(x=t[0], y=t[1], mut=None)),
    st.tuples(_value, st.integers(0, 10 ** 6)).map(lambda t: dict(x=t[0], y=None, mut=t[1])),
    st.tuples(_value, st.integers(0, 10 ** 6)).map(lambda t: dict(x=t[0], y=_twin(t[0], t[1]), mut=None)),
    st.tuples(_scalar_all, _scalar_all).map(lambda t: dict(x=t[0], y=t[1], mut=None)),
)
_copy_near = st.tuples(_value, st.integers(0, 10 ** 6)).map(lambda t: dict(x=t[0], mut=t[1]))
_derive = st.tuples(st.sampled_from(['copy', 'twin', 'twin', 'twin2', 'near', 'other']), st.integers(0, 10 ** 6)).map(list)
_triple = st.tuples(_value, _derive, _derive, _value).map(lambda t: dict(x=t[0], derive=[t[1], t[2]], other=t[3]))

# ----------------------------------------------------------------------------- the exhaustive pool

POOL = [
    None, True, False, 0, 1, 2, 0.0, 1.0, 2.5, ['nan', 0], ['np', 'float64', ['nan', 0]], ['np', 'float32', ['nan', 0]], ['inf', 1], ['inf', -1],
    '', 'a', '1', ['np', 'str_', 'a'], ['np', 'int64', 1], ['np', 'float64', 1.0], ['np', 'float32', 1.0], ['np', 'bool_', True],
    ['dt', D0, 0], ['ts', D0, 0], ['dt64', D0, 0, 's'], ['dt64', D0, 0, 'us'], ['dt', D0 + 1, 0], ['nat'],
    ['list', []], ['tuple', []], ['dict', []], ['Dict', []], ['dictattr', []], ['arr', 'float64', [0], []], ['arr', 'float64', [0, 2], []], ['arr', 'object', [0], []],
    ['list', [1]], ['tuple', [1]], ['list', [1.0]], ['arr', 'int64', [1], [1]], ['arr', 'float64', [1], [1.0]], ['arr', 'int64', [1, 1], [1]], ['arr', 'int64', [], [1]], ['arr', 'object', [1], [1]],
    ['list', [1, 2]], ['tuple', [1, 2]], ['arr', 'int64', [2], [1, 2]], ['arr', 'int64', [2, 1], [1, 2]], ['arr', 'int64', [1, 2], [1, 2]], ['list', [['list', [1, 2]]]], ['list', [['tuple', [1, 2]]]],
    ['list', [['nan', 0]]], ['tuple', [['nan', 0]]], ['arr', 'float64', [1], [['nan', 0]]], ['arr', 'float64', [2], [['nan', 0], 1.0]], ['arr', 'float64', [2], [1.0, ['nan', 0]]],
    ['dict', [['a', 1]]], ['Dict', [['a', 1]]], ['dictattr', [['a', 1]]], ['dict', [['a', 1.0]]], ['dict', [['b', 1]]], ['dict', [['a', ['nan', 0]]]],
    ['dict', [['a', ['list', [1, 2]]]]], ['dict', [['a', ['tuple', [1, 2]]]]], ['dict', [['a', ['arr', 'int64', [2], [1, 2]]]]],
    ['dict', [['a', ['arr', 'float64', [2, 3], [0.0] * 6]], ['b', ['arr', 'float64', [2, 4], [0.0] * 8]]]],
    ['series', ['range', 2], [1.0, ['nan', 0]], 'float64'], ['series', ['dates', [D0, D0 + 1]], [1.0, ['nan', 0]], 'float64'], ['series', ['range', 2], [1.0, 2.0], 'float64'],
    ['series', ['range', 0], [], 'float64'], ['series', ['range', 1], [1.0], 'float64'],
    ['df', ['range', 2], ['a'], [[1.0], [['nan', 0]]]], ['df', ['range', 2], ['b'], [[1.0], [['nan', 0]]]], ['df', ['range', 2], ['a', 'b'], [[1.0, 2.0], [1.0, 2.0]]],
    ['df', ['range', 0], ['a'], []], ['df', ['range', 2], [], [[], []]],
    ['dict', [['a', ['df', ['range', 2], ['a'], [[1.0], [2.0]]]]]], ['dict', [['a', ['df', ['range', 2], ['b'], [[1.0], [2.0]]]]]],
    ['list', [['series', ['range', 1], [1.0], 'float64']]],
]


def enum_pool(tier):
    def chunker(i, nchunks):
        if i == 0:
            yield ['pool']
    return len(POOL) ** 3, chunker


def run_pool(spec):
    n = len(POOL)
    a = [build(v, Env()) for v in POOL]
    b = [build(v, Env()) for v in POOL]       # structural copies with fresh NaN objects
    r = {}
    for i in range(n):
        for j in range(n):
            r[i, j] = _eq('%s, %s' % (short(a[i], 100), short(b[j], 100)), a[i], b[j])
    for i in range(n):
        check(r[i, i], 'eq(x, copy of x) is False for %s', a[i])
        for j in range(n):
            check(r[i, j] == r[j, i], 'eq not symmetric on %s vs %s', a[i], a[j])
            ti, tj = tag(POOL[i]), tag(POOL[j])
            if (ti in CONT or tj in CONT) and ti != tj:
                check(not r[i, j], 'eq(%s, %s) is True although the container types differ', a[i], a[j])
            for k in range(n):
                if r[i, j] and r[j, k]:
                    check(r[i, k], 'eq not transitive: %s ~ %s ~ %s', a[i], a[j], a[k])
    return dict(nt=True, cls=['pool'])


SUBS = [
    Sub('pairs', lambda tier: _pair, run_pairs, quick=4000, thorough=20000,
        rule='pairs (x, y) over scalars, numpy scalars, timestamps, lists/tuples/dict/Dict/dictattr, arrays (int/float/str/object/datetime64; shapes incl. 0-d, empty, 2-d), '
             'Series/DataFrames, nested to depth 3; y independent, a one-step mutation of x, or a value-equal twin. Oracle: never raises, boolean, reflexive, symmetric, '
             '== agreement on plain NaN-free values, in_ agrees with eq, False across container types / scalar-vs-container. non-trivial = a container or NaN involved',
        floor=0.3, class_floors={'pandas': 0.05, 'array': 0.1, 'nan': 0.1, 'equal': 0.03}),
    Sub('copy_near', lambda tier: _copy_near, run_copy_near, quick=4000, thorough=20000,
        rule='x with a structural copy (fresh NaN objects) must be equal; x with one definite change (leaf, container type, length, key, reshape, wrap, index, columns, cell) '
             'must be unequal, both directions. non-trivial = x is a container or holds NaN',
        floor=0.3, class_floors={'near=ctype': 0.03, 'near=reshape': 0.01, 'near=leaf': 0.05, 'duplicate_column_labels': 0.01, 'duplicate_index_labels': 0.005}),
    Sub('triples', lambda tier: _triple, run_triples, quick=2500, thorough=15000,
        rule='triples (x, d1(x), d2(x)) with d in {copy, value-equal twin, double twin, near miss, unrelated}; all 9 eq values; symmetry, reflexivity and transitivity. '
             'non-trivial = at least one equal pair of differently written values',
        floor=0.15),
    Sub('large', lambda tier: _large, run_large, quick=400, thorough=3000,
        rule='lists, tuples, arrays (float/int/object, 1-d and 2-d), Series, DataFrames, dicts and lists of lists with 40-257 cells and NaN at every k-th cell: '
             'eq(x, structural copy) must be True and one changed / NaN-ed / dropped cell must make it False (size-dependent paths)',
        floor=0.5),
    EnumSub('pool_cube', enum_pool, run_pool, thorough_only=False, chunks=1,
            rule='the full %i x %i eq matrix of a fixed pool against structural copies, then every triple for transitivity (%i triples) - exhaustive' % (len(POOL), len(POOL), len(POOL) ** 3)),
]
