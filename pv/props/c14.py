# -*- coding: utf-8 -*-
"""
C14 - eq is a NaN-aware, type-strict equivalence on values, containers, numpy arrays and pandas objects.

Sub-checks
    pairs        laws on arbitrary pairs: never raises, boolean, reflexive, symmetric, agrees with == on plain NaN-free values, in_ agrees
    copy_near    eq(x, structural copy with fresh NaN objects) is True; eq(x, near miss) is False (both directions)
    triples      transitivity on triples built from value-equal twins, copies and near misses
    large        the copy / near-miss laws on values of 40-257 cells
    session      objects built ONCE and asked several times: in-place changes between calls (state kept between calls, the caller's own containers),
                 values sharing member objects / one object twice / views cut out of one array or frame (object identity among the inputs)
    labels       Series / DataFrames whose index / column labels are python objects (strings, None, NaN, ints, ints beyond 2**53) under the pair, copy / near-miss and session laws;
                 the near miss is mostly ONE label replaced by its near neighbour (None <-> NaN, the int float64 cannot tell from it, a different leaf)
    pool_cube    every pair and triple of a fixed pool, exhaustive
Classes 35 and 38 of the brief live inside pairs / copy_near / session / pool_cube: instances of collections.OrderedDict and of user subclasses of dict / list / tuple at any depth, and ints beyond the range of a float
(10**400 ...) as scalars, members and object cells, next to floats / NaN / inf / numpy floats, with their near misses (labels int_beyond_float_range, huge_int_*, near_huge_int, container_subclass*, near_subclass_vs_base_same_members)
"""
import collections
import datetime
import math
import os
import zlib

import numpy as np
import pandas as pd
from hypothesis import strategies as st

from pv.core import Sub, EnumSub, Violation, HarnessError, call, check, short
from pv.codec import build as build_scalar, Env, D0, mkdt

ASSUMPTIONS = [
    'dict keys are strings; nesting depth <= 3',
    'transitivity (triples, pool_cube) is checked on small numbers only (|x| < 2**24) so that ==, which eq agrees with, is itself transitive across int / float / float32 / numpy scalars; '
    'the pair, copy / near-miss and session laws also run on ints beyond 2**53 (python, numpy int64 scalars, int64 arrays and Series) and on -0.0',
    'transitivity is claimed over instants of one resolution class: datetime, pandas.Timestamp, numpy.datetime64[s|us]; datetime.date and datetime64[D] take part in the '
    'pair laws only, because numpy makes date == datetime64[D] == datetime64[s] == datetime while date != datetime, and eq agrees with == on plain values by the statement',
    'arrays of different dtype but equal cells: neither outcome is demanded (the statement gives only necessary conditions); near misses change shape, a cell, or the container type',
    'Series names and index names are not part of the claim (index, columns and cells are): two columns cut out of one frame must be equal only when they also carry the same name',
    'pandas.NaT appears as a scalar and as a cell of datetime64[s] arrays (a copy must be equal, NaT against a date must not) and as a cell of Series of dtype datetime64[ns] (generated; eq handles them); DataFrame cells are float64 only',
    'NaN / NaT among the index LABELS (float index holding NaN, DatetimeIndex holding NaT) are generated (left out only with PV_C14_EXCLUDE_FIXED=1): finding F32, fixed in /repo, replay replays/C14/F32-*.json; before the fix - '
    'eq(s, s.copy()) is False for s = pd.Series([1., 2.], index=[1., nan]) because _eq.py:76 compares the index through _eq_attrs -> eq(Index, Index), which falls through to the '
    'elementwise == of _eq.py:94-95 where NaN != NaN; the statement says NaN equals NaN at any depth and a value equals its structural copy. NaN column labels (float column labels, one of them NaN) share the root cause and are generated under the same switch',
    'zone-aware stamps: datetime with a fixed-offset tzinfo, zone-aware pandas.Timestamp, and DatetimeIndex labels localised in ONE fixed-offset zone (+05:30 or -03:00, never offset 0) take part in the pair, '
    'copy / near-miss and session laws; the zone near misses keep the wall clock and drop / add / change the zone, which is another instant. Not demanded either way: a zone-aware index against the naive or '
    'other-zone index of the SAME instants (eq compares labels through .values, i.e. UTC instants, and says True; pandas says such labels are equal across zones and unequal against naive ones; the statement does not '
    'speak of zones and DatetimeTZDtype is a pandas extension dtype) - such pairs are not generated. Transitivity (triples, pool_cube) keeps the zone-free universe',
    'object-dtype labels (index kind \'obj\', object column labels; sub-check labels and a share of the wide universe): strings, None, NaN, small ints and ints beyond 2**53 as python objects. '
    'Demanded unequal: a label None against NaN (None is not NaN: the types differ and eq(None, nan) is False), two ints that differ (an int beyond 2**53 against the int float64 cannot tell from it), a different leaf. '
    'NOT generated, because nothing is claimed either way: an int label against the equal float label (plain floats other than NaN never occur among object labels), an object-dtype index against an '
    'int64 / float64 index of equal labels (arrays of different dtype but equal cells, see above)',
    'session: an operand is changed in place only BETWEEN calls and every call is judged on the content it sees; nothing is demanded about eq leaving its operands untouched beyond that '
    '(later calls on the same objects are judged by the content the harness gave them)',
    'ints beyond the range of a float (10**400, 10**400 + 1, -(10**400), 2**1024; about 3-5% of the cases of pairs / copy_near, 1.6% of session, two pool entries) are python ints: scalars, members of lists / tuples / dicts, cells of '
    'object arrays and object Series - no typed array or int64 Series can hold them and no other raw type spells them (no value-equal twin). numpy itself refuses np.float64(0.0) == 10**400 (OverflowError); '
    'the statement demands a boolean and no exception over scalars AND numpy scalars, so such pairs are inside the universe and are generated (on the unchanged tree eq catches the error and says False: no defect). '
    'Demanded unequal: such an int against its neighbour int, +-inf, 1e308 / the largest float, numpy.float64 of those, another such int, its negative, the same int inside a list / tuple / array '
    '(python compares int and float exactly, and eq agrees with == on plain values). They take no part in the transitivity triples (the pool apart)',
    'subclasses of the container types: collections.OrderedDict and an instance of a user subclass of dict against the plain dict with the same items must be unequal ("dict vs a dict subclass", named in the statement). '
    'An instance of a user subclass of list / tuple against the list / tuple with the same members is demanded unequal too: the statement says "False whenever container types differ" and its own example of a dict subclass '
    'shows that a subclass counts as a different container type (the title says type-strict); such instances also obey the copy, near-miss, symmetry and session laws. Two OrderedDicts that differ only in key order: nothing '
    'is demanded (their own == is order-sensitive, eq sorts the keys) - not generated. The user classes override nothing but __repr__',
    'which values are subclass instances / give way to a value holding an int beyond the range of a float is read off the content of the drawn value (_gate, a crc32), not drawn: a draw of its own gave every simple value '
    'many choice sequences and cost 15% of the distinct cases. Consequence: a given list content is always generated as list or always as the subclass instance; the other spelling is reached through the ctype_subclass near miss',
]

# ----------------------------------------------------------------------------- builder


def build(v, env):
    if _is_huge(v):
        return v + 1 - 1            # a fresh int object for every build: the copy of an int beyond the range of a float is equal to it, not identical
    if isinstance(v, list) and v:
        tag = v[0]
        if tag in LISTS:
            return _mklist(tag, [build(x, env) for x in v[1]])
        if tag in DICTS:
            return _mkdict(tag, {k: build(x, env) for k, x in v[1]})
        if tag == 'arr':
            dtype, shape, flat = v[1], v[2], v[3]
            vals = [build(x, env) for x in flat]
            if dtype == 'object':
                a = np.empty(len(vals), dtype=object)
                for i, x in enumerate(vals):
                    a[i] = x
            elif dtype.startswith('datetime64'):
                a = np.array([np.datetime64('NaT') if x is pd.NaT else x for x in vals], dtype=dtype)
            else:
                a = np.array(vals, dtype=dtype)
            return a.reshape(shape)
        if tag == 'series':
            idx, vals = _index(v[1], env), [build(x, env) for x in v[2]]
            return pd.Series(vals, index=idx, dtype=v[3])
        if tag == 'df':
            idx = _index(v[1], env)
            rows = [[build(x, env) for x in row] for row in v[3]]
            kind = _cols_kind(v[2])
            cols = list(v[2]) if kind == 'str' else pd.Index([build_scalar(c, env) for c in v[2]], dtype='float64' if kind == 'flt' else object)   # float labels, possibly NaN; object labels
            return pd.DataFrame(rows, index=idx, columns=cols, dtype='float64') if len(v[2]) else pd.DataFrame(index=idx)
        if tag in ('dtz', 'tsz'):       # zone-aware stamps: wall clock (ordinal, seconds) in the fixed-offset zone of v[3] minutes
            d = mkdt(v[1], v[2]).replace(tzinfo=_zone(v[3]))
            return d if tag == 'dtz' else pd.Timestamp(d)
    return build_scalar(v, env)


def _zone(minutes):
    return datetime.timezone(datetime.timedelta(minutes=minutes))


# containers and their subclasses (class 35): 'ulist' / 'utuple' / 'udict' are instances of user classes deriving from list / tuple / dict, 'odict' is a collections.OrderedDict
LISTS = ('list', 'tuple', 'ulist', 'utuple')
DICTS = ('dict', 'Dict', 'dictattr', 'odict', 'udict')
SUBCLASSES = ('ulist', 'utuple', 'odict', 'udict')
BASE = {'ulist': 'list', 'utuple': 'tuple', 'odict': 'dict', 'udict': 'dict'}


class MyList(list):
    def __repr__(self):
        return 'MyList(%s)' % list.__repr__(self)


class MyTuple(tuple):
    def __repr__(self):
        return 'MyTuple(%s)' % tuple.__repr__(self)


class MyDict(dict):
    def __repr__(self):
        return 'MyDict(%s)' % dict.__repr__(self)


def _mklist(tag, members):
    return members if tag == 'list' else tuple(members) if tag == 'tuple' else MyList(members) if tag == 'ulist' else MyTuple(members)


def _mkdict(tag, d):
    if tag == 'dict':
        return d
    if tag == 'odict':
        return collections.OrderedDict(d)
    if tag == 'udict':
        return MyDict(d)
    import pyg_base
    return getattr(pyg_base, tag)(d)


def _cols_kind(cols):
    """how the column labels of a frame spec are built: all strings - a plain list; all floats / NaN - a float64 Index; anything else (strings, None, NaN, ints mixed) - an object-dtype Index"""
    if all(isinstance(c, str) for c in cols):
        return 'str'
    if all(isinstance(c, float) or tag(c) == 'nan' for c in cols):
        return 'flt'
    return 'obj'


def _index(spec, env=None):
    if spec[0] == 'range':
        return pd.RangeIndex(spec[1])
    if spec[0] == 'obj':            # object-dtype labels: strings, None, NaN, small ints, ints beyond 2**53 (python objects, label by label)
        return pd.Index([build_scalar(o, env) for o in spec[1]], dtype=object)
    if spec[0] == 'flt':            # float labels, possibly NaN (only generated behind INCLUDE_NAN_LABELS)
        return pd.Index([build_scalar(o, env) for o in spec[1]], dtype='float64')
    idx = pd.DatetimeIndex([pd.NaT if o is None else mkdt(o) for o in spec[1]])    # None = NaT label (only behind INCLUDE_NAN_LABELS)
    return idx.tz_localize(_zone(spec[2])) if spec[0] == 'datesz' else idx            # 'datesz': the same wall clocks, zone-aware in a fixed-offset zone


# ----------------------------------------------------------------------------- strategies

INCLUDE_NAN_LABELS = os.environ.get('PV_C14_EXCLUDE_FIXED', '') != '1'      # NaN / NaT among the index labels: finding F32 (fixed), see ASSUMPTIONS

BIG = [2 ** 53, 2 ** 53 + 1, 2 ** 53 + 2, -(2 ** 53) - 1, 2 ** 62 + 1]             # ints that float64 cannot tell from a neighbour
HUGE = [10 ** 400, 10 ** 400 + 1, -(10 ** 400), 2 ** 1024]                          # ints beyond the range of a float (class 38): float(x), math.isnan(x), np.float64(0.) == x raise OverflowError
_FLOAT_OVERFLOW = 2 ** 1024 - 2 ** 970                                              # the first int whose conversion to float overflows



def _gate(v, mod):
    """a fixed number in range(mod) read off the CONTENT of spec v. The classes added late (container subclasses, ints beyond the range of a float) are switched on by it instead of by a draw of their own:
    an extra draw gives every simple value many choice sequences, Hypothesis then repeats the simple values and the number of distinct cases drops (measured: -15%)"""
    return zlib.crc32(repr(v).encode()) % mod


_nan = st.integers(0, 1).map(lambda k: ['nan', k])
_inst = st.tuples(st.sampled_from(['dt', 'ts', 'dt64s', 'dt64us']), st.integers(D0, D0 + 2), st.sampled_from([0, 3600])).map(
    lambda t: [t[0], t[1], t[2]] if t[0] in ('dt', 'ts') else ['dt64', t[1], t[2], t[0][4:]])
_daylike = st.one_of(st.integers(D0, D0 + 2).map(lambda o: ['date', o]), st.integers(D0, D0 + 2).map(lambda o: ['dt64', o, 0, 'D']))
_npsc = st.one_of(
    st.integers(0, 2).map(lambda i: ['np', 'int64', i]),
    st.sampled_from([0.0, 1.0, 2.5]).map(lambda f: ['np', 'float64', f]),
    st.sampled_from([0.0, 1.0, 2.5]).map(lambda f: ['np', 'float32', f]),
    st.just(['np', 'float64', ['nan', 0]]), st.just(['np', 'float32', ['nan', 1]]),
    st.booleans().map(lambda b: ['np', 'bool_', b]),
    st.sampled_from(['a', 'b']).map(lambda s: ['np', 'str_', s]))
_plain_scalar = st.one_of(st.none(), st.booleans(), st.integers(0, 2), st.sampled_from([0.0, 1.0, 2.5]), st.sampled_from(['', 'a', 'b', '1']))
_scalar = st.one_of(_plain_scalar, _plain_scalar, _nan, st.sampled_from([['inf', 1], ['inf', -1]]), _inst, _npsc, st.just(['nat']))
_scalar_all = st.one_of(_scalar, _daylike)
# the wide scalar universe (pairs, copy_near, session): ints beyond 2**53 (python and int64), -0.0, a two-character string
_wide_extra = st.one_of(st.sampled_from(BIG), st.sampled_from(BIG), st.just(-0.0), st.just('ab'), st.sampled_from(BIG).map(lambda i: ['np', 'int64', i]),
                        st.just(['np', 'float64', -0.0])).map(lambda v: v)      # .map keeps it ONE branch of the union below (about 1 leaf in 25)
# zone-aware stamps (datetime with a fixed-offset tzinfo, zone-aware pandas.Timestamp): the wall clock of v[1:3] in a zone v[3] minutes off UTC, never 0
ZONES = [330, -180]
_zoned = st.tuples(st.sampled_from(['dtz', 'tsz']), st.integers(D0, D0 + 2), st.sampled_from([0, 3600]), st.sampled_from(ZONES)).map(list)
_scalar_wide = st.one_of(_plain_scalar, _plain_scalar, _nan, st.sampled_from([['inf', 1], ['inf', -1]]), _inst, _npsc, st.just(['nat']), _daylike, _wide_extra, _zoned)

_SHAPES = [[0], [1], [2], [1, 1], [2, 1], [1, 2], [2, 2], [0, 2], [2, 3], []]


def _prod(shape):
    n = 1
    for s in shape:
        n *= s
    return n


@st.composite
def _arr(draw, inner=None, wide=False):
    shape = draw(st.sampled_from(_SHAPES))
    n = _prod(shape)
    dtype = draw(st.sampled_from(['int64', 'float64', 'object', 'str', 'datetime64[s]'] if inner is not None else ['int64', 'float64', 'str', 'datetime64[s]']))
    if dtype == 'int64':
        flat = draw(st.lists(st.one_of(st.integers(0, 2), st.sampled_from(BIG)) if wide and draw(st.integers(0, 3)) == 0 else st.integers(0, 2), min_size=n, max_size=n))
    elif dtype == 'float64':
        flat = draw(st.lists(st.one_of(st.sampled_from([0.0, 1.0, 2.5, 0.0, 1.0, 2.5, -0.0] if wide else [0.0, 1.0, 2.5]), _nan), min_size=n, max_size=n))
    elif dtype == 'str':
        flat = draw(st.lists(st.sampled_from(['a', 'b', '']), min_size=n, max_size=n))
        dtype = '<U2'
    elif dtype == 'datetime64[s]':
        cell = st.integers(D0, D0 + 2).map(lambda o: ['dt', o, 0])
        flat = draw(st.lists(st.one_of(cell, cell, cell, st.just(['nat'])) if wide else cell, min_size=n, max_size=n))
    else:
        flat = draw(st.lists(inner, min_size=n, max_size=n))
    return ['arr', dtype, shape, flat]


# object-dtype labels (an index kind next to 'range', 'dates', 'flt', 'datesz', and object column labels): strings, None, NaN, small ints and ints beyond 2**53 as python objects.
# At least one label is None, NaN or an int beyond 2**53 (the labels with a near neighbour: None <-> NaN, the int float64 cannot tell from it); one case in three (and every single label) holds numbers / None / NaN only
# (what a numeric fast path would take), the others hold a string as well. Plain floats other than NaN are never generated: nothing is claimed about an int label against the equal float label
_label_special = st.one_of(st.none(), _nan, st.sampled_from(BIG))
_label_any = st.one_of(st.sampled_from(['a', 'b', '']), st.integers(0, 2), _label_special)
_label_num = st.one_of(st.integers(0, 2), st.integers(0, 2), _label_special)


@st.composite
def _obj_labels(draw, n):
    k = draw(st.integers(0, n - 1))
    if draw(st.integers(0, 2)) == 0:
        return [draw(_label_special if i == k else _label_num) for i in range(n)]
    j = (k + 1 + draw(st.integers(0, max(n - 2, 0)))) % n           # with two labels or more, one is a string (j != k)
    return [draw(_label_special if i == k else st.sampled_from(['a', 'b', '']) if i == j else _label_any) for i in range(n)]


@st.composite
def _pandas(draw, wide=False):
    n = draw(st.integers(0, 3))
    idx = draw(st.one_of(st.just(['range', n]), st.lists(st.integers(D0, D0 + 5), min_size=n, max_size=n, unique=True).map(lambda o: ['dates', sorted(o)]),
                         # labels need not be unique nor sorted: "equal only if index, columns and all cells match" is about positions
                         st.lists(st.integers(D0, D0 + 1), min_size=n, max_size=n).map(lambda o: ['dates', o])))
    if wide and INCLUDE_NAN_LABELS and n and draw(st.integers(0, 3)) == 0:
        k = draw(st.integers(0, n - 1))
        if draw(st.booleans()):
            idx = ['flt', [float(i) for i in range(k)] + [['nan', 0]] + [float(i) for i in range(k + 1, n)]]
        else:
            idx = ['dates', [D0 + i for i in range(k)] + [None] + [D0 + i for i in range(k + 1, n)]]
    if wide and n and idx[0] == 'dates' and draw(st.integers(0, 3)) == 0:
        idx = ['datesz', idx[1], draw(st.sampled_from(ZONES))]                 # every label of the index zone-aware, in one zone with a non-zero offset
    if wide and n and idx[0] == 'range' and draw(st.booleans()):   # taken out of the RangeIndex cases only: the NaN / NaT / zone-aware label classes keep their rates
        idx = ['obj', draw(_obj_labels(n))]
    cell = st.one_of(st.sampled_from([0.0, 1.0, 2.5, 0.0, 1.0, 2.5, -0.0] if wide else [0.0, 1.0, 2.5]), _nan)
    if draw(st.booleans()):
        kind = draw(st.sampled_from(['float64', 'float64', 'int64', 'object', 'datetime64[ns]'] if wide else ['float64', 'float64', 'int64', 'object']))
        if kind == 'datetime64[ns]':
            stamp = st.integers(D0, D0 + 2).map(lambda o: ['dt', o, 0])
            return ['series', idx, draw(st.lists(st.one_of(stamp, stamp, stamp, st.just(['nat'])), min_size=n, max_size=n)), kind]
        if kind == 'int64':
            vals = draw(st.lists(st.one_of(st.integers(0, 2), st.sampled_from(BIG)) if wide and draw(st.integers(0, 3)) == 0 else st.integers(0, 2), min_size=n, max_size=n))
        elif kind == 'object':
            ocell = st.one_of(st.sampled_from(['a', 'b']), st.none(), st.integers(0, 2))
            vals = draw(st.lists(ocell, min_size=n, max_size=n))
            if wide and n and _gate(vals, 4) == 0:         # class 38: ints beyond the range of a float among the cells of an object Series, next to floats, NaN, inf (one object Series in four)
                vals = draw(st.lists(st.one_of(st.sampled_from(HUGE), st.sampled_from(HUGE), st.sampled_from([1.5, 1e308, ['inf', 1]]), _nan, ocell), min_size=n, max_size=n))
        else:
            vals = draw(st.lists(cell, min_size=n, max_size=n))
        return ['series', idx, vals, kind]
    cols = draw(st.one_of(st.lists(st.sampled_from(['a', 'b', 'c']), min_size=0, max_size=3, unique=True), st.lists(st.sampled_from(['a', 'a', 'b']), min_size=2, max_size=3)))
    if wide and INCLUDE_NAN_LABELS and len(set(cols)) == len(cols) and draw(st.integers(0, 2)) == 0:      # float column labels, one of them NaN (frames with duplicate labels are left as they are)
        cols = draw(st.sampled_from([[['nan', 0]], [0.0, ['nan', 0]], [['nan', 1], 1.0], [0.0, ['nan', 0], 2.0]]))
    elif wide and cols and len(set(cols)) == len(cols) and draw(st.integers(0, 2)) == 0:                  # object column labels, taken out of the unique string labels only
        cols = draw(_obj_labels(len(cols)))
    rows = [[draw(cell) for _ in cols] for _ in range(n)]
    return ['df', idx, cols, rows]


def _containers(inner, wide=False):
    keys = st.sampled_from(['a', 'b', 'c'])
    items = st.lists(st.tuples(keys, inner).map(list), max_size=3, unique_by=lambda kv: kv[0])
    if wide:
        # class 35: one list / tuple in 12 is an instance of a user subclass of list / tuple, one exact dict in 6 a collections.OrderedDict or an instance of a user subclass of dict
        # (at every depth, as _containers is used at every level); Dict / dictattr / arrays keep their share
        # (which ones: decided by the members, see _gate)
        return st.one_of(
            st.lists(inner, max_size=3).map(lambda v: ['ulist' if _gate(v, 12) == 5 else 'list', v]),
            st.lists(inner, max_size=3).map(lambda v: ['utuple' if _gate(v, 12) == 6 else 'tuple', v]),
            items.map(lambda v: ['odict' if _gate(v, 12) == 5 else 'udict' if _gate(v, 12) == 6 else 'dict', v]),
            items.map(lambda v: ['Dict', v]), items.map(lambda v: ['dictattr', v]),
            _arr(inner, wide))
    return st.one_of(
        st.lists(inner, max_size=3).map(lambda v: ['list', v]),
        st.lists(inner, max_size=3).map(lambda v: ['tuple', v]),
        items.map(lambda v: ['dict', v]), items.map(lambda v: ['Dict', v]), items.map(lambda v: ['dictattr', v]),
        _arr(inner, wide))


# numbers only (what a vectorised comparison would take): lists / tuples / dict values of python ints, floats, NaN, -0.0 with an int beyond 2**53 next to a float
_numbers_only = st.tuples(st.sampled_from(['list', 'tuple', 'dict']), st.sampled_from(BIG),
                          st.lists(st.one_of(st.sampled_from([0.5, 1.0, -0.0, 2.5]), st.integers(0, 2), _nan, st.sampled_from(BIG)), min_size=1, max_size=3),
                          st.integers(0, 3)).map(
    lambda t: (lambda cells: [t[0], cells] if t[0] != 'dict' else ['dict', [['k%i' % i, c] for i, c in enumerate(cells)]])(t[2][:t[3]] + [t[1]] + t[2][t[3]:]))

_leafy = st.one_of(_scalar_all, _arr(), _pandas())
_l1 = st.one_of(_leafy, _containers(_leafy))
_value = st.one_of(_leafy, _containers(_leafy), _containers(_l1), _containers(st.one_of(_l1, _containers(_l1))))

_leafy_w = st.one_of(_scalar_wide, _arr(None, True), _pandas(True), _pandas(True).map(list))      # pandas twice (.map: identical branches are merged): the wide scalars must not thin it out
_l1_w = st.one_of(_leafy_w, _containers(_leafy_w, True))
_value_wide_small = st.one_of(_leafy_w, _containers(_leafy_w, True), _containers(_l1_w, True), _containers(st.one_of(_l1_w, _containers(_l1_w, True)), True), _numbers_only)

# class 38: ints beyond the range of a float (10**400, 10**400 + 1, -(10**400), 2**1024) as scalars, as members of lists / tuples / dicts (and their subclasses), as cells of object arrays and of
# object Series, bare or one level down, next to floats, 1e308, NaN, +-inf, numpy float scalars (numpy refuses np.float64(0.0) == 10**400 with OverflowError), None and strings.
# No typed array / int64 Series can hold them and no other raw type spells them (no value-equal twin)
_huge = st.sampled_from(HUGE)
_huge_company = st.one_of(st.sampled_from([1.5, 0, 1e308, -1e308, 2 ** 53 + 1, 0.0]), st.sampled_from([['inf', 1], ['inf', -1]]), _nan,
                          st.sampled_from([['np', 'float64', 1.5], ['np', 'float64', ['inf', 1]], ['np', 'float64', ['nan', 0]], ['np', 'float32', 1.0], ['np', 'int64', 1]]),
                          st.sampled_from([None, 'a', '']))


@st.composite
def _huge_value(draw):
    cells = draw(st.lists(st.one_of(_huge, _huge_company, _huge_company), max_size=3))
    k = draw(st.integers(0, len(cells)))
    cells = cells[:k] + [draw(_huge)] + cells[k:]                  # at least one huge int, at any place
    n = len(cells)
    kind = draw(st.sampled_from(['scalar', 'scalar', 'list', 'tuple', 'dict', 'arr', 'arr', 'series', 'series', 'ulist', 'odict']))
    if kind == 'scalar':
        return cells[k]
    if kind in LISTS:
        v = [kind, cells]
    elif kind in DICTS:
        v = [draw(st.sampled_from(['dict', 'dict', 'Dict', 'dictattr'])) if kind == 'dict' else kind, [['k%i' % i, c] for i, c in enumerate(cells)]]
    elif kind == 'arr':
        v = ['arr', 'object', draw(st.sampled_from([[n], [n], [n, 1], [1, n]] + ([[2, 2]] if n == 4 else []))), cells]
    else:
        idx = ['range', n] if draw(st.booleans()) else ['dates', [D0 + i for i in range(n)]]
        v = ['series', idx, cells, 'object']
    outer = draw(st.sampled_from([None, None, None, 'list', 'tuple', 'dict', 'arr']))
    if outer in ('list', 'tuple'):
        return [outer, [v, draw(_huge_company)]]
    if outer == 'dict':
        return ['dict', [['a', v], ['b', draw(_huge_company)]]]
    if outer == 'arr':
        return ['arr', 'object', [2], [draw(_huge_company), v]]
    return v


_value_wide = _value_wide_small.flatmap(lambda v: _huge_value() if _gate(v, 25) in (3, 7) else st.just(v))       # two values in 25 give way to a value holding such an int

# ----------------------------------------------------------------------------- spec-level analysis and mutation

CONT = ('list', 'tuple', 'dict', 'Dict', 'dictattr', 'arr', 'series', 'df') + SUBCLASSES


def tag(v):
    if isinstance(v, list) and v:
        return v[0]
    return 'scalar'


def has(v, pred):
    if pred(v):
        return True
    t = tag(v)
    if t in LISTS:
        return any(has(x, pred) for x in v[1])
    if t in DICTS:
        return any(has(x, pred) for _, x in v[1])
    if t == 'arr':
        return any(has(x, pred) for x in v[3])
    if t == 'series':
        return any(has(x, pred) for x in v[2])
    if t == 'df':
        return any(has(x, pred) for row in v[3] for x in row)
    if t == 'np':
        return has(v[2], pred)
    return False


def has_nan(v):
    return has(v, lambda x: tag(x) == 'nan')


def is_plain(v):
    """NaN-free scalars / lists / tuples / exact dicts of python types only (numbers, strings, None, datetime.datetime / date, +-inf)"""
    t = tag(v)
    if t in ('scalar', 'dt', 'date', 'inf', 'dtz'):
        return True
    if t in ('list', 'tuple'):
        return all(is_plain(x) for x in v[1])
    if t == 'dict':
        return all(is_plain(x) for _, x in v[1])
    return False


def _scalar_twins(v):
    """specs of scalars that == v by value (used to make equal-but-differently-typed pairs frequent)"""
    if isinstance(v, bool):
        return [int(v), float(v), ['np', 'bool_', v], ['np', 'int64', int(v)]]
    if _is_huge(v):
        return []                   # no other raw type spells an int beyond the range of a float
    if isinstance(v, int):
        return [float(v), ['np', 'int64', v], ['np', 'float64', float(v)], ['np', 'float32', float(v)]] + ([bool(v)] if v in (0, 1) else [])
    if isinstance(v, float):
        return [['np', 'float64', v], ['np', 'float32', v]] + ([int(v)] if v == int(v) else [])
    if isinstance(v, str):
        return [['np', 'str_', v]]
    t = tag(v)
    if t == 'nan':
        return [['nan', 1 - v[1]], ['np', 'float64', ['nan', 0]], ['np', 'float32', ['nan', 1]]]
    if t in ('dt', 'ts'):
        return [['dt', v[1], v[2]], ['ts', v[1], v[2]], ['dt64', v[1], v[2], 's'], ['dt64', v[1], v[2], 'us']]
    if t == 'dt64' and v[3] in ('s', 'us'):
        return [['dt', v[1], v[2]], ['ts', v[1], v[2]], ['dt64', v[1], v[2], 's'], ['dt64', v[1], v[2], 'us']]
    if t == 'np':
        return [v[2]] + _scalar_twins(v[2])
    if t in ('dtz', 'tsz'):         # the same instant: the other raw type, and / or written in the other zone
        return [['dtz' if t == 'tsz' else 'tsz'] + v[1:], _rezone('dtz', v), _rezone('tsz', v)]
    return []


def _rezone(t, v):
    """the instant of the zone-aware stamp v written in the other zone, as raw type t"""
    off = [z for z in ZONES if z != v[3]][0]
    total = v[1] * 86400 + v[2] + (off - v[3]) * 60
    return [t, total // 86400, total % 86400, off]


def _different_leaf(v):
    """a scalar spec that is definitely not equal to scalar spec v"""
    if v is None:
        return 0
    if isinstance(v, bool):
        return not v
    if isinstance(v, int):
        return v + 3
    if isinstance(v, float):
        return v + 3.5 if v + 3.5 != v else v / 2        # (1e308 + 3.5 is 1e308)
    if isinstance(v, str):
        return v + 'x'
    t = tag(v)
    if t == 'nan':
        return 0.0
    if t == 'inf':
        return ['inf', -v[1]]
    if t in ('dt', 'ts'):
        return [t, v[1] + 7, v[2]]
    if t == 'date':
        return ['date', v[1] + 7]
    if t == 'dt64':
        return ['dt64', v[1] + 7, v[2], v[3]]
    if t == 'nat':
        return ['ts', D0, 0]
    if t in ('dtz', 'tsz'):
        return [t, v[1] + 7, v[2], v[3]]
    if t == 'np':
        return ['np', v[1], _different_leaf(v[2])] if v[1] not in ('float64', 'float32') or tag(v[2]) != 'nan' else ['np', v[1], 0.0]
    raise ValueError(v)


def _float_collision(v):
    """an int w != v that float64 cannot tell from v (v is an int beyond 2**53)"""
    for w in (int(float(v)), v + 1, v - 1, v + 2, v - 2):
        if w != v and float(w) == float(v) and abs(w) < 2 ** 63:
            return w
    return None                     # e.g. 2**53 + 2: both neighbours round away from it


def _is_big(x):
    return isinstance(x, int) and not isinstance(x, bool) and 2 ** 53 <= abs(x) < _FLOAT_OVERFLOW


def _is_huge(x):
    return isinstance(x, int) and not isinstance(x, bool) and abs(x) >= _FLOAT_OVERFLOW


def _huge_near_misses(v):
    """near misses of an int v beyond the range of a float - every one a different number (python compares int and float exactly: 10**400 != inf, 10**400 != 1e308), or the same int inside a container"""
    s = 1 if v > 0 else -1
    other = s * (2 ** 1024 if abs(v) != 2 ** 1024 else 10 ** 400)
    return [('huge_int_neighbour', v + 1), ('huge_int_neighbour', v - 1), ('huge_int_vs_inf', ['inf', s]), ('huge_int_vs_float', s * 1e308), ('huge_int_vs_float', s * 1.7976931348623157e308),
            ('huge_int_vs_numpy_float', ['np', 'float64', ['inf', s]]), ('huge_int_vs_numpy_float', ['np', 'float64', s * 1e308]), ('huge_int_vs_other_huge_int', other), ('huge_int_sign', -v)]


def _is_negzero(x):
    return isinstance(x, float) and x == 0 and math.copysign(1.0, x) < 0


def _scalar_wide_mutations(v):
    """class 18 ("a scalar that is a sequence") and class 15 near misses of scalar spec v: every one is a definite change"""
    out = []
    t = tag(v)
    if _is_big(v) and _float_collision(v) is not None:
        out.append(('bigint_float_collision', _float_collision(v)))
    if t == 'np' and _is_big(v[2]) and _float_collision(v[2]) is not None:
        out.append(('bigint_float_collision', ['np', v[1], _float_collision(v[2])]))
    typed = None
    if _is_huge(v):
        out.extend(_huge_near_misses(v))            # (typed stays None: no typed array holds such an int; the object array / object Series candidates below apply)
    elif t == 'scalar':
        if isinstance(v, bool):
            typed = 'bool'
        elif isinstance(v, int):
            typed = 'int64'
        elif isinstance(v, float):
            typed = 'float64'
        elif isinstance(v, str) and len(v) <= 2:
            typed = '<U2'
    elif t == 'dt':
        typed = 'datetime64[s]'
    elif t == 'nan':
        typed = 'float64'
    if typed in ('bool', '<U2', 'datetime64[s]') or t == 'nan':       # int / float already have wrap_arr in the narrow list
        out.append(('wrap_arr_typed', ['arr', typed, [1], [v]]))
    out.append(('wrap_arr_obj', ['arr', 'object', [1], [v]]))
    # the scalar against a longer container filled with it: numpy / pandas broadcast scalar == container to "all cells True"
    if typed is not None:
        out.append(('broadcast_arr', ['arr', typed, [2], [v, v]]))
        out.append(('broadcast_arr', ['arr', typed, [2, 2], [v, v, v, v]]))
    out.append(('broadcast_arr_obj', ['arr', 'object', [2], [v, v]]))
    out.append(('broadcast_series', ['series', ['range', 2], [v, v], typed if typed in ('int64', 'float64') else 'object']))
    if typed == 'float64':
        out.append(('broadcast_df', ['df', ['range', 2], ['a', 'b'], [[v, v], [v, v]]]))
    if isinstance(v, str) and len(v) >= 1:
        out.append(('str_as_chars', ['list', list(v)]))
        out.append(('str_as_chars', ['tuple', list(v)]))
        out.append(('str_as_chars', ['arr', '<U2', [len(v)], list(v)]))
    if t in ('dtz', 'tsz'):             # the same wall clock without a zone / in the other zone: another instant (no zone has offset 0, no two the same offset)
        out.append(('zone_dropped_same_wall_clock', [t[:2], v[1], v[2]]))
        out.append(('other_zone_same_wall_clock', [t, v[1], v[2], [z for z in ZONES if z != v[3]][0]]))
    if t in ('dt', 'ts'):
        out.append(('zone_added_same_wall_clock', [t + 'z', v[1], v[2], ZONES[(v[1] + v[2]) % 2]]))
    if t == 'scalar' and v is not None and not v:                       # 0, 0.0, -0.0, False, '' against the empty containers
        for e in (['list', []], ['tuple', []], ['dict', []], ['arr', 'float64', [0], []], ['arr', '<U2', [0], []], ['series', ['range', 0], [], 'float64']):
            out.append(('falsy_vs_empty', e))
    return out


LABEL_KINDS = ('index_label_none_vs_nan', 'index_label_bigint_collision', 'index_label_leaf', 'column_label_none_vs_nan', 'column_label_bigint_collision', 'column_label_leaf')


def _label_mutations(labels, axis):
    """object-dtype labels with ONE label replaced by its near neighbour: None <-> NaN (None is not NaN), an int beyond 2**53 -> the int float64 cannot tell from it
    (two ints that differ are different labels), any label -> a different leaf. Never an int against the equal float"""
    out = []
    for i, c in enumerate(labels):
        alts = []
        if c is None:
            alts.append(('none_vs_nan', ['nan', 0]))
        elif tag(c) == 'nan':
            alts.append(('none_vs_nan', None))
        if _is_big(c) and _float_collision(c) is not None:
            alts.append(('bigint_collision', _float_collision(c)))
        alts.append(('leaf', _different_leaf(c)))
        for k, m in alts:
            out.append(('%s_label_%s' % (axis, k), labels[:i] + [m] + labels[i + 1:]))
    return out


def _mutations(v, wide=False):
    """all (kind, mutated spec) candidates obtained by ONE definite change somewhere in v
    (wide=True appends the candidates of classes 15 and 18; the narrow list is kept as it was so that stored replays keep their meaning)"""
    out = []
    t = tag(v)

    def sub(children, rebuild):
        for i, c in enumerate(children):
            for kind, m in _mutations(c, wide):
                out.append((kind, rebuild(i, m)))
    if t == 'scalar' or t in ('nan', 'inf', 'dt', 'ts', 'date', 'dt64', 'nat', 'np', 'dtz', 'tsz'):
        out.append(('leaf', _different_leaf(v)))
        out.append(('wrap_list', ['list', [v]]))
        out.append(('wrap_tuple', ['tuple', [v]]))
        if t == 'scalar' and isinstance(v, (int, float)) and not isinstance(v, bool) and not _is_huge(v):
            out.append(('wrap_arr', ['arr', 'float64' if isinstance(v, float) else 'int64', [1], [v]]))
            out.append(('wrap_arr0d', ['arr', 'float64' if isinstance(v, float) else 'int64', [], [v]]))
        if v is None:
            out.append(('none_vs_empty_arr', ['arr', 'float64', [0], []]))
            out.append(('none_vs_empty_list', ['list', []]))
        if wide:
            out.extend(_scalar_wide_mutations(v))
            if t == 'scalar' and isinstance(v, float) and v == v and abs(v) < 1e300:
                out.append(('leaf_within_isclose_tolerance', v + max(abs(v), 1.0) * 1e-9))      # a different number, far inside any rtol=1e-5 / atol=1e-8
        return out
    if t in LISTS:
        base = BASE.get(t, t)
        if t != base:
            out.append(('ctype_subclass', [base, v[1]]))               # an instance of a user subclass of list / tuple against the list / tuple of the same members
        out.append(('ctype', ['tuple' if base == 'list' else 'list', v[1]]))
        out.append(('len', [t, v[1] + [0]]))
        if v[1]:
            out.append(('len', [t, v[1][:-1]]))
            if all(isinstance(x, int) and not isinstance(x, bool) for x in v[1]):
                out.append(('ctype_arr', ['arr', 'object' if any(_is_huge(x) for x in v[1]) else 'int64', [len(v[1])], v[1]]))
            if all(isinstance(x, float) for x in v[1]):
                out.append(('ctype_arr', ['arr', 'float64', [len(v[1])], v[1]]))
        if wide and t == base:
            out.append(('ctype_subclass', ['u' + t, v[1]]))
        sub(v[1], lambda i, m: [t, v[1][:i] + [m] + v[1][i + 1:]])
        return out
    if t in DICTS:
        for other in ('dict', 'Dict', 'dictattr'):
            if other != t:
                out.append(('ctype_subclass' if t in SUBCLASSES and other == 'dict' else 'ctype', [other, v[1]]))
        if wide:            # a plain dict against a collections.OrderedDict / an instance of a user subclass of dict with the same items; the subclasses against one another
            for other in ('odict', 'udict'):
                if other != t:
                    out.append(('ctype_subclass' if t == 'dict' else 'ctype', [other, v[1]]))
        out.append(('key_added', [t, v[1] + [['zz', 0]]]))
        if v[1]:
            out.append(('key_removed', [t, v[1][:-1]]))
            out.append(('key_renamed', [t, v[1][:-1] + [[v[1][-1][0] + 'z', v[1][-1][1]]]]))
        sub([x for _, x in v[1]], lambda i, m: [t, v[1][:i] + [[v[1][i][0], m]] + v[1][i + 1:]])
        return out
    if t == 'arr':
        dtype, shape, flat = v[1], v[2], v[3]
        n = len(flat)
        for alt in ([n], [n, 1], [1, n], [1, n, 1]):
            if alt != shape and not (n == 0 and 0 not in alt):
                out.append(('reshape', ['arr', dtype, alt, flat]))
        if n == 0:
            out.append(('reshape', ['arr', dtype, [0, 3] if shape != [0, 3] else [0], flat]))
        if len(shape) == 1 and dtype in ('int64', 'float64') and not any(tag(x) == 'nan' for x in flat):
            out.append(('ctype', ['list', flat]))
            out.append(('ctype', ['tuple', flat]))
        if n == 1:
            out.append(('unwrap', flat[0]))
        if wide and dtype == 'datetime64[s]':
            for i, c in enumerate(flat):
                out.append(('cell_from_nat', ['arr', dtype, shape, flat[:i] + [['dt', D0 + 9, 0]] + flat[i + 1:]]) if tag(c) == 'nat' else
                           ('cell_to_nat', ['arr', dtype, shape, flat[:i] + [['nat']] + flat[i + 1:]]))
        sub(flat, lambda i, m: ['arr', dtype if dtype == 'object' else _mut_dtype(dtype, m), shape, flat[:i] + [m] + flat[i + 1:]])
        out[:] = [(k, m) for k, m in out if _arr_ok(m)]
        return out
    if t == 'series':
        idx, vals, dtype = v[1], v[2], v[3]
        n = len(vals)
        if n:
            out.append(('index', ['series', _shift_index(idx), vals, dtype]))
            out.append(('to_array', ['arr', 'float64', [n], vals]) if dtype == 'float64' else ('index', ['series', _shift_index(idx), vals, dtype]))
            out.append(('to_frame', ['df', idx, ['a'], [[x] for x in vals]]) if dtype == 'float64' else ('index', ['series', _shift_index(idx), vals, dtype]))
            for i, c in enumerate(vals):
                if dtype == 'float64':
                    out.append(('cell', ['series', idx, vals[:i] + [0.0 if tag(c) == 'nan' else c + 3.5] + vals[i + 1:], dtype]))
                    if wide and tag(c) != 'nan' and isinstance(c, float):
                        out.append(('cell_within_isclose_tolerance', ['series', idx, vals[:i] + [c + max(abs(c), 1.0) * 1e-9] + vals[i + 1:], dtype]))
                    out.append(('cell_to_nan', ['series', idx, vals[:i] + [['nan', 0]] + vals[i + 1:], dtype])) if tag(c) != 'nan' else None
                elif dtype == 'int64':
                    out.append(('cell', ['series', idx, vals[:i] + [c + 3] + vals[i + 1:], dtype]))
                    if wide and _is_big(c) and _float_collision(c) is not None:
                        out.append(('bigint_float_collision', ['series', idx, vals[:i] + [_float_collision(c)] + vals[i + 1:], dtype]))
                elif dtype == 'datetime64[ns]':
                    out.append(('cell', ['series', idx, vals[:i] + [['dt', D0 + 9, 0] if tag(c) == 'nat' else ['dt', c[1] + 7, c[2]]] + vals[i + 1:], dtype]))
                    if tag(c) != 'nat':
                        out.append(('cell_to_nat', ['series', idx, vals[:i] + [['nat']] + vals[i + 1:], dtype]))
                else:
                    out.append(('cell', ['series', idx, vals[:i] + ['zz'] + vals[i + 1:], dtype]))
                    if wide and _is_huge(c):
                        out.extend((k, ['series', idx, vals[:i] + [m] + vals[i + 1:], dtype]) for k, m in _huge_near_misses(c))
            if wide:
                out.extend((k, ['series', i2, vals, dtype]) for k, i2 in _zone_index_mutations(idx))
            if idx[0] == 'obj':
                out.extend((k, ['series', ['obj', l2], vals, dtype]) for k, l2 in _label_mutations(idx[1], 'index'))
        out.append(('length', ['series', _grow_index(idx), vals + [1.0 if dtype == 'float64' else ['dt', D0, 0] if dtype == 'datetime64[ns]' else 1], dtype]))
        return out
    if t == 'df':
        idx, cols, rows = v[1], v[2], v[3]
        n = len(rows)
        if n:
            out.append(('index', ['df', _shift_index(idx), cols, rows]))
            if wide:
                out.extend((k, ['df', i2, cols, rows]) for k, i2 in _zone_index_mutations(idx))
            if idx[0] == 'obj':
                out.extend((k, ['df', ['obj', l2], cols, rows]) for k, l2 in _label_mutations(idx[1], 'index'))
        if cols:
            out.append(('columns', ['df', idx, cols[:-1] + [_other_label(cols[-1])], rows]))
            out.append(('columns_dropped', ['df', idx, cols[:-1], [r[:-1] for r in rows]]))
            if not isinstance(cols[0], str):
                for j, c in enumerate(cols):
                    out.append(('column_label_from_nan' if tag(c) == 'nan' else 'column_label', ['df', idx, cols[:j] + [_other_label(c)] + cols[j + 1:], rows]))
            if _cols_kind(cols) == 'obj':
                out.extend((k, ['df', idx, c2, rows]) for k, c2 in _label_mutations(cols, 'column'))
            if len(cols) >= 2 and not _cell_same(cols[0], cols[1]):
                out.append(('columns_swapped', ['df', idx, [cols[1], cols[0]] + cols[2:], rows]))
            for i, r in enumerate(rows):
                for j, c in enumerate(r):
                    nr = [list(x) for x in rows]
                    nr[i][j] = 0.0 if tag(c) == 'nan' else c + 3.5
                    out.append(('cell', ['df', idx, cols, nr]))
                    if wide and tag(c) != 'nan' and isinstance(c, float):
                        nr2 = [list(x) for x in rows]
                        nr2[i][j] = c + max(abs(c), 1.0) * 1e-9
                        out.append(('cell_within_isclose_tolerance', ['df', idx, cols, nr2]))
        out.append(('length', ['df', _grow_index(idx), cols, rows + [[1.0] * len(cols)]]))
        return out
    raise ValueError(v)


def _mut_dtype(dtype, m):
    return dtype


def _arr_ok(m):
    """typed arrays must still be buildable after a leaf mutation (e.g. an int array cannot hold a wrapped list)"""
    if tag(m) != 'arr' or m[1] == 'object':
        return True
    for x in m[3]:
        t = tag(x)
        if m[1] == 'int64' and not (isinstance(x, int) and not isinstance(x, bool)):
            return False
        if m[1] == 'float64' and not (isinstance(x, float) or t == 'nan'):
            return False
        if m[1] == '<U2' and not (isinstance(x, str) and len(x) <= 2):
            return False
        if m[1] == 'datetime64[s]' and t not in ('dt', 'nat'):
            return False
    return True


def _other_label(c):
    """a column label that differs from c (string labels, float labels where NaN is a label, object labels: None, ints)"""
    if c is None:
        return 0
    if isinstance(c, int):
        return c + 3
    return c + 'z' if isinstance(c, str) else 7.0 if tag(c) == 'nan' else c + 3.5


def _zone_index_mutations(idx):
    """the same wall-clock labels without / with / in another zone: other instants, as no zone has offset 0 and no two zones the same offset"""
    if idx[0] not in ('dates', 'datesz') or all(o is None for o in idx[1]):
        return []
    if idx[0] == 'dates':
        return [('index_zone_added_same_wall_clock', ['datesz', idx[1], ZONES[len(idx[1]) % 2]])]
    return [('index_zone_dropped_same_wall_clock', ['dates', idx[1]]), ('index_other_zone_same_wall_clock', ['datesz', idx[1], [z for z in ZONES if z != idx[2]][0]])]


def _shift_index(idx):
    if idx[0] == 'range':
        return ['dates', [D0 + i for i in range(idx[1])]]
    if idx[0] == 'flt':
        return ['flt', [50.0 if tag(o) == 'nan' else o + 10.0 for o in idx[1]]]
    if idx[0] == 'obj':
        return ['obj', [_different_leaf(o) for o in idx[1]]]
    return [idx[0], [D0 + 30 if o is None else o + 10 for o in idx[1]]] + idx[2:]


def _grow_index(idx):
    if idx[0] == 'range':
        return ['range', idx[1] + 1]
    if idx[0] == 'flt':
        return ['flt', idx[1] + [99.0]]
    if idx[0] == 'obj':
        return ['obj', idx[1] + ['zz']]
    return [idx[0], idx[1] + [max([o for o in idx[1] if o is not None] + [D0]) + 20]] + idx[2:]


def _twin(v, pick):
    """value-equal twin of v: one scalar leaf replaced by an equal scalar of another type (or v itself when there is none)"""
    t = tag(v)
    if t in LISTS and v[1]:
        i = pick % len(v[1])
        return [t, v[1][:i] + [_twin(v[1][i], pick // 7)] + v[1][i + 1:]]
    if t in DICTS and v[1]:
        i = pick % len(v[1])
        return [t, v[1][:i] + [[v[1][i][0], _twin(v[1][i][1], pick // 7)]] + v[1][i + 1:]]
    if t == 'arr' and v[1] == 'object' and v[3]:
        i = pick % len(v[3])
        return ['arr', 'object', v[2], v[3][:i] + [_twin(v[3][i], pick // 7)] + v[3][i + 1:]]
    tw = _scalar_twins(v) if t not in CONT else []
    return tw[pick % len(tw)] if tw else v


# ----------------------------------------------------------------------------- oracles

def _eq(what, x, y):
    from pyg_base import eq
    r = call('eq(%s)' % what, eq, x, y)
    check(isinstance(r, (bool, np.bool_)), 'eq(%s) returned %s of type %s, not a boolean', what, r, type(r).__name__)
    return bool(r)


def _members(v):
    return [x[1] for x in v[1]] if tag(v) in DICTS else v[1]


def _classes(*specs):
    cls = set()
    for v in specs:
        cls.add('top=' + tag(v))
        if has_nan(v):
            cls.add('nan')
        if has(v, lambda x: tag(x) in ('series', 'df')):
            cls.add('pandas')
        if has(v, lambda x: tag(x) == 'df' and len(set(map(repr, x[2]))) < len(x[2])):
            cls.add('duplicate_column_labels')
        if has(v, lambda x: tag(x) in ('series', 'df') and x[1][0] in ('dates', 'datesz') and len(set(x[1][1])) < len(x[1][1])):
            cls.add('duplicate_index_labels')
        if has(v, lambda x: tag(x) in ('dtz', 'tsz')):
            cls.update(['zone_aware_stamp', 'zone_aware_scalar'])
        if has(v, lambda x: tag(x) in ('series', 'df') and x[1][0] == 'datesz'):
            cls.update(['zone_aware_stamp', 'zone_aware_index'])
        if has(v, lambda x: tag(x) == 'df' and any(tag(c) == 'nan' for c in x[2])):
            cls.add('nan_column_label')
        if has(v, lambda x: tag(x) == 'series' and x[3] == 'datetime64[ns]'):
            cls.add('series_of_datetime_cells')
        if has(v, lambda x: tag(x) == 'arr'):
            cls.add('array')
        if has(v, _is_big):
            cls.add('int_beyond_2**53')
        if has(v, _is_negzero):
            cls.add('negative_zero')
        if has(v, lambda x: tag(x) == 'arr' and x[1] == 'datetime64[s]' and any(tag(c) == 'nat' for c in x[3])):
            cls.add('nat_in_datetime_array')
        if has(v, lambda x: tag(x) in ('series', 'df') and x[1][0] != 'range' and any((o is None and x[1][0] != 'obj') or tag(o) == 'nan' for o in x[1][1])):
            cls.add('nan_or_nat_index_label')       # (None among object labels is None, not NaT)
        if has(v, lambda x: tag(x) in ('series', 'df') and x[1][0] == 'obj'):
            cls.update(['object_labels', 'object_index_labels'])
        if has(v, lambda x: tag(x) == 'df' and _cols_kind(x[2]) == 'obj'):
            cls.update(['object_labels', 'object_column_labels'])
        if has(v, lambda x: (tag(x) in ('series', 'df') and x[1][0] == 'obj' and _numeric_labels(x[1][1])) or (tag(x) == 'df' and _cols_kind(x[2]) == 'obj' and _numeric_labels(x[2]))):
            cls.add('object_labels_numbers_none_nan_only')
        if tag(v) in ('list', 'tuple', 'dict') and len(v[1]) >= 2 and any(_is_big(c) for c in _members(v)) and any(isinstance(c, float) for c in _members(v)) \
                and all(tag(c) == 'nan' or (isinstance(c, (int, float)) and not isinstance(c, bool)) for c in _members(v)):
            cls.add('numbers_only_bigint_next_to_float')
        if tag(v) in CONT and has(v, lambda x: x is not v and tag(x) in CONT):
            cls.add('nested')
        if has(v, _is_huge):                                            # class 38
            cls.add('int_beyond_float_range')
            if _is_huge(v):
                cls.add('huge_int_scalar')
            if has(v, lambda x: tag(x) in LISTS + DICTS and any(_is_huge(c) for c in _members(x))):
                cls.add('huge_int_member_of_list_tuple_dict')
            if has(v, lambda x: (tag(x) == 'arr' and any(_is_huge(c) for c in x[3])) or (tag(x) == 'series' and any(_is_huge(c) for c in x[2]))):
                cls.add('huge_int_cell_of_object_array_or_series')
            if has(v, lambda x: tag(x) in CONT and tag(x) != 'df' and any(_is_huge(c) for c in _cells(x)) and any(_floatlike(c) for c in _cells(x))):
                cls.add('huge_int_next_to_float_nan_inf')
        if has(v, lambda x: tag(x) in SUBCLASSES):                      # class 35
            cls.add('container_subclass')
            cls.add('dict_subclass' if has(v, lambda x: tag(x) in ('odict', 'udict')) else 'list_or_tuple_subclass')
            if has(v, lambda x: tag(x) in ('ulist', 'utuple')):
                cls.add('list_or_tuple_subclass')
            if has(v, lambda x: x is not v and tag(x) in SUBCLASSES):
                cls.add('container_subclass_below_root')
    return sorted(cls)


def _cells(v):
    t = tag(v)
    return _members(v) if t in LISTS + DICTS else v[3] if t == 'arr' else v[2] if t == 'series' else []


def _floatlike(c):
    return isinstance(c, float) or tag(c) in ('nan', 'inf') or _npfloat(c)


def _npfloat(c):
    return tag(c) == 'np' and c[1] in ('float64', 'float32')


def _huge_meets_numpy_float(a, b):
    """does an int beyond the range of a float of one spec sit at the place of a numpy float scalar of the other (the comparison numpy itself refuses with OverflowError)?
    Places correspond as eq walks them: members of two lists / tuples of one type and length, values of two dicts of one type under the same keys, cells of two object arrays of one shape"""
    if (_is_huge(a) and _npfloat(b)) or (_is_huge(b) and _npfloat(a)):
        return True
    ta, tb = tag(a), tag(b)
    if ta != tb:
        return False
    if ta in LISTS and len(a[1]) == len(b[1]):
        return any(_huge_meets_numpy_float(p, q) for p, q in zip(a[1], b[1]))
    if ta in DICTS and sorted(k for k, _ in a[1]) == sorted(k for k, _ in b[1]):
        other = dict((k, c) for k, c in b[1])
        return any(_huge_meets_numpy_float(c, other[k]) for k, c in a[1])
    if ta == 'arr' and a[1] == 'object' and b[1] == 'object' and a[2] == b[2]:
        return any(_huge_meets_numpy_float(p, q) for p, q in zip(a[3], b[3]))
    return False


def _numeric_labels(labels):
    return all(c is None or tag(c) == 'nan' or (isinstance(c, int) and not isinstance(c, bool)) for c in labels)


def _kind_classes(kind):
    """class labels of a near-miss kind"""
    cls = []
    if kind is None:
        return cls
    if kind.startswith('broadcast') or kind in ('str_as_chars', 'falsy_vs_empty', 'wrap_arr_typed', 'wrap_arr_obj'):
        cls.append('scalar_vs_sequence')
    if kind.endswith('within_isclose_tolerance'):
        cls.append('near_within_isclose_tolerance')        # a float leaf / cell moved by a relative 1e-9: a different number that np.isclose / rounding takes for the same
    if 'zone' in kind:
        cls.append('near_zone_changed_same_wall_clock')    # the same wall clock with no zone / a zone added / another zone: other instants
    if kind.startswith('huge_int'):
        cls.append('near_huge_int')                        # an int beyond the range of a float against its neighbour / inf / 1e308 / a numpy float / another such int / its negative
        if kind == 'huge_int_vs_numpy_float':
            cls.append('huge_int_meets_numpy_float')       # the comparison numpy itself refuses with OverflowError
    if kind == 'ctype_subclass':
        cls.append('near_subclass_vs_base_same_members')   # dict vs OrderedDict / user subclass of dict, list / tuple vs an instance of a user subclass, same items
    if kind in LABEL_KINDS:
        cls.append('near_object_label_changed')            # one object-dtype label replaced: None <-> NaN, an int beyond 2**53 -> its float64 twin, a different leaf
        cls.append('near_object_label_' + kind.split('_label_')[1])
    return cls


def _pick_from(ms, prefer, pick=0):
    """the candidates of the preferred kind when there are any (keeps rare near misses frequent), else all of them.
    A value with object-dtype labels (these exist only in the wide universe) takes a label near miss in two cases out of three unless another kind is preferred"""
    if prefer is None and (pick // 1000) % 3 != 0:
        sel = [c for c in ms if c[0] in LABEL_KINDS]
        if sel:
            return sel
    if (pick // 3) % 2 == 0:            # a value holding an int beyond the range of a float (one case in 20 of the wide universe) takes a near miss on that int in half the cases
        sel = [c for c in ms if c[0].startswith('huge_int')]
        if sel:
            return sel
    if prefer:
        # 'zone' stands for the near misses on index / column LABELS: the zone of a date index, and one object-dtype label replaced
        sel = [c for c in ms if c[0] == prefer or c[0].endswith('_' + prefer) or (prefer == 'zone' and ('zone' in c[0] or c[0] in LABEL_KINDS))]
        if sel:
            return sel
    return ms


def run_pairs(spec):
    from pyg_base import in_
    vx, vy = spec['x'], spec['y']
    kind = None
    if spec.get('mut') is not None:
        ms = _pick_from(_mutations(vx, bool(spec.get('w'))), spec.get('prefer'), spec['mut'])
        kind, vy = ms[spec['mut'] % len(ms)]
    env = Env()
    x, y = build(vx, env), build(vy, env)
    sx, sy = short(x, 120), short(y, 120)
    rxx = _eq('%s, itself' % sx, x, x)
    check(rxx, 'eq(x, x) is False for x = %s', x)
    ryy = _eq('%s, itself' % sy, y, y)
    check(ryy, 'eq(y, y) is False for y = %s', y)
    rxy = _eq('%s, %s' % (sx, sy), x, y)
    ryx = _eq('%s, %s' % (sy, sx), y, x)
    check(rxy == ryx, 'eq is not symmetric: eq(%s, %s) = %s but the reverse = %s', x, y, rxy, ryx)
    plain = is_plain(vx) and is_plain(vy)
    if plain:
        exp = bool(x == y)
        check(rxy == exp, 'eq(%s, %s) = %s but on NaN-free plain values == gives %s', x, y, rxy, exp)
    r_in = call('in_(%s, [None, %s])' % (sx, sy), in_, x, [['unrelated'], y])
    check(bool(r_in) == rxy, 'in_(%s, [.., %s]) = %s but eq says %s', x, y, r_in, rxy)
    if tag(vx) in CONT and tag(vy) in CONT and tag(vx) != tag(vy):
        check(not rxy, 'eq(%s, %s) is True although the container types differ (%s vs %s)', x, y, type(x).__name__, type(y).__name__)
    if (tag(vx) in CONT) != (tag(vy) in CONT):
        check(not rxy, 'eq(%s, %s) is True although one is a %s and the other a scalar', x, y, type(x if tag(vx) in CONT else y).__name__)
    nt = tag(vx) in CONT or tag(vy) in CONT or has_nan(vx) or has_nan(vy)
    cls = _classes(vx, vy) + ['equal' if rxy else 'unequal'] + (['plain'] if plain else [])
    if spec.get('how') == 'twin' and repr(vx) != repr(vy):
        cls.append('one_value_in_two_raw_types')        # a leaf replaced by an equal value of another raw type (python / numpy number, datetime / Timestamp / datetime64)
        if tag(vx) in CONT:
            cls.append('one_value_in_two_raw_types_inside_container')
    if spec.get('how') == 'redtype' and repr(vx) != repr(vy):
        cls.append('array_same_shape_other_dtype')
    cls.extend(_kind_classes(kind))
    if _huge_meets_numpy_float(vx, vy) and 'huge_int_meets_numpy_float' not in cls:
        cls.append('huge_int_meets_numpy_float')
    if kind is None and tag(vx) != tag(vy) and BASE.get(tag(vx), tag(vx)) == BASE.get(tag(vy), tag(vy)) and (tag(vx) in SUBCLASSES or tag(vy) in SUBCLASSES):
        cls.append('subclass_vs_base_or_sibling_free_pair')
    return dict(nt=nt, cls=cls)


def _reorder(v):
    """the same value with every dict written in reverse insertion order"""
    t = tag(v)
    if t in LISTS:
        return [t, [_reorder(x) for x in v[1]]]
    if t in DICTS:      # (an OrderedDict keeps its order: its own == is order-sensitive, so nothing is claimed about two OrderedDicts written in different orders)
        return [t, [[k, _reorder(x)] for k, x in v[1]][::1 if t == 'odict' else -1]]
    if t == 'arr' and v[1] == 'object':
        return ['arr', 'object', v[2], [_reorder(x) for x in v[3]]]
    return v


def run_copy_near(spec):
    vx = spec['x']
    vr = _reorder(vx)
    if vr != vx:
        a, b = build(vx, Env()), build(vr, Env())
        check(_eq('%s, the same with dict keys inserted in reverse order' % short(a, 150), a, b) and _eq('reverse order first', b, a),
              'eq is False for %s and the same value with its dicts written in reverse key order', a)
    ms = _pick_from(_mutations(vx, bool(spec.get('w'))), spec.get('prefer'), spec['mut'])
    kind, vm = ms[spec['mut'] % len(ms)]
    x = build(vx, Env())
    c = build(vx, Env())          # fresh NaN objects, fresh containers
    sx = short(x, 150)
    check(_eq('%s, structural copy' % sx, x, c), 'eq(x, copy of x) is False for x = %s', x)
    check(_eq('structural copy, %s' % sx, c, x), 'eq(copy of x, x) is False for x = %s', x)
    m = build(vm, Env())
    sm = short(m, 150)
    check(not _eq('%s, %s' % (sx, sm), x, m), 'eq(%s, %s) is True although they differ (%s)', x, m, kind)
    check(not _eq('%s, %s' % (sm, sx), m, x), 'eq(%s, %s) is True although they differ (%s)', m, x, kind)
    cls = _classes(vx) + ['near=' + kind] + (['dict_key_order_permuted'] if vr != vx else []) + _kind_classes(kind)
    return dict(nt=tag(vx) in CONT or has_nan(vx), cls=cls)


_DAYLIKE = lambda x: tag(x) == 'date' or (tag(x) == 'dt64' and x[3] == 'D')


def run_triples(spec):
    vx = spec['x']
    vs = [vx]
    for how, pick in spec['derive']:
        if how == 'copy':
            vs.append(vx)
        elif how == 'twin':
            vs.append(_twin(vx, pick))
        elif how == 'twin2':
            vs.append(_twin(_twin(vx, pick), pick // 3 + 1))
        elif how == 'near':
            ms = _mutations(vx)
            vs.append(ms[pick % len(ms)][1])
        else:
            vs.append(spec['other'])
    vals = [build(v, Env()) for v in vs]
    r = {}
    for i in range(3):
        for j in range(3):
            r[i, j] = _eq('%s, %s' % (short(vals[i], 100), short(vals[j], 100)), vals[i], vals[j])
    for i in range(3):
        check(r[i, i], 'eq(x, x) False for %s', vals[i])
        for j in range(3):
            check(r[i, j] == r[j, i], 'eq not symmetric on %s vs %s: %s / %s', vals[i], vals[j], r[i, j], r[j, i])
    daylike = any(has(v, _DAYLIKE) for v in vs)
    if not daylike:
        for i in range(3):
            for j in range(3):
                for k in range(3):
                    if r[i, j] and r[j, k]:
                        check(r[i, k], 'eq is not transitive: %s ~ %s ~ %s but eq(first, last) is False', vals[i], vals[j], vals[k])
    ntrue = sum(1 for i in range(3) for j in range(3) if i < j and r[i, j])
    cls = _classes(*vs) + ['equal_pairs=%i' % ntrue] + (['daylike_skipped'] if daylike else [])
    return dict(nt=ntrue >= 1 and len(set(map(repr, vs))) >= 2, cls=cls)


# ----------------------------------------------------------------------------- large values (size-dependent paths)

_large = st.fixed_dictionaries(dict(kind=st.sampled_from(['list', 'tuple', 'arr_f', 'arr_i', 'arr_o', 'arr_2d', 'series', 'df', 'dict', 'list_of_lists']),
                                    n=st.sampled_from([40, 64, 100, 128, 257]), nan_every=st.sampled_from([0, 1, 3, 7]), pos=st.integers(0, 10 ** 6),
                                    how=st.sampled_from(['cell', 'cell', 'cell_to_nan', 'drop_last', 'cell_within_isclose_tolerance'])))


def _large_spec(kind, n, nan_every, pos=None, how=None):
    def cell(i):
        if nan_every and i % nan_every == 0 and kind not in ('arr_i',):
            return ['nan', i % 2]
        return float(i % 5) if kind != 'arr_i' else i % 5
    if kind in ('arr_2d', 'df'):
        n = n - n % 2
        if how == 'drop_last':
            how = 'cell'        # dropping one cell of a 2-column block is not expressible; change a cell instead
    cells = [cell(i) for i in range(n)]
    if pos is not None:
        i = pos % n
        if how == 'drop_last':
            cells = cells[:-1]
        elif how == 'cell_to_nan' and kind != 'arr_i' and not (isinstance(cells[i], list)):
            cells[i] = ['nan', 0]
        elif how == 'cell_within_isclose_tolerance' and _large_tolerance_applies(kind, nan_every):
            if isinstance(cells[i], list):          # a NaN cell: its neighbour is a number (NaN sits at every 3rd or 7th place here)
                i = i + 1 if i + 1 < len(cells) else i - 1
            cells[i] = cells[i] + max(abs(cells[i]), 1.0) * 1e-9          # a different float, far inside any rtol=1e-5 / atol=1e-8
        else:
            cells[i] = 9.5 if kind != 'arr_i' else 9
    m = len(cells)
    if kind in ('list', 'tuple'):
        return [kind, cells]
    if kind == 'arr_f':
        return ['arr', 'float64', [m], cells]
    if kind == 'arr_i':
        return ['arr', 'int64', [m], cells]
    if kind == 'arr_o':
        return ['arr', 'object', [m], cells]
    if kind == 'arr_2d':
        m2 = m - m % 2
        return ['arr', 'float64', [m2 // 2, 2], cells[:m2]]
    if kind == 'series':
        return ['series', ['range', m], cells, 'float64']
    if kind == 'df':
        m2 = m - m % 2
        return ['df', ['range', m2 // 2], ['a', 'b'], [cells[2 * r:2 * r + 2] for r in range(m2 // 2)]]
    if kind == 'dict':
        return ['dict', [['k%03i' % i, c] for i, c in enumerate(cells)]]
    return ['list', [['list', cells[i:i + 4]] for i in range(0, m, 4)]]


def _large_tolerance_applies(kind, nan_every):
    return kind != 'arr_i' and nan_every != 1         # there is a float cell to move (else the change falls back to 'cell')


def run_large(spec):
    vx = _large_spec(spec['kind'], spec['n'], spec['nan_every'])
    vm = _large_spec(spec['kind'], spec['n'], spec['nan_every'], spec['pos'], spec['how'])
    x, c, m = build(vx, Env()), build(vx, Env()), build(vm, Env())
    what = '%s of %i cells (NaN every %i)' % (spec['kind'], spec['n'], spec['nan_every'])
    check(_eq('%s, itself' % what, x, x), 'eq(x, x) is False for a %s', what)
    check(_eq('%s, structural copy' % what, x, c) and _eq('structural copy, %s' % what, c, x), 'eq(x, copy of x) is False for a %s', what)
    check(not _eq('%s, one change (%s)' % (what, spec['how']), x, m) and not _eq('one change, %s' % what, m, x),
          'eq is True for a %s and the same with one change (%s at %s)', what, spec['how'], spec['pos'] % spec['n'])
    tol = spec['how'] == 'cell_within_isclose_tolerance' and _large_tolerance_applies(spec['kind'], spec['nan_every'])
    return dict(nt=True, cls=['kind=' + spec['kind'], 'n=%i' % spec['n'], 'nan' if spec['nan_every'] else 'nan_free', 'how=' + spec['how']] + (['near_within_isclose_tolerance'] if tol else []))


def _redtype(v, pick):
    """the first array inside v re-written with the same shape and another dtype (same cells as objects, or other cells): eq must stay a symmetric boolean that never raises"""
    t = tag(v)
    if t == 'arr':
        n = len(v[3])
        alts = [['arr', d, v[2], cells] for d, cells in (('object', v[3]), ('<U2', ['a'] * n), ('object', [None] * n), ('float64', [1.0] * n), ('int64', [1] * n), ('float64', [['nan', 0]] * n))
                if d != v[1] or d == 'object']
        return alts[pick % len(alts)]
    if t in ('list', 'tuple'):
        for i, c in enumerate(v[1]):
            if has(c, lambda x: tag(x) == 'arr'):
                return [t, v[1][:i] + [_redtype(c, pick)] + v[1][i + 1:]]
    if t in ('dict', 'Dict', 'dictattr'):
        for i, (k, c) in enumerate(v[1]):
            if has(c, lambda x: tag(x) == 'arr'):
                return [t, v[1][:i] + [[k, _redtype(c, pick)]] + v[1][i + 1:]]
    return v


_arr_values = st.one_of(_arr(_leafy_w, True), _arr(None, True).map(list), _containers(_arr(None, True)))
# 'prefer' names a rare near-miss kind that is taken whenever x offers it (x holds an int beyond 2**53: the neighbour float64 cannot tell from it)
# ... 'within_isclose_tolerance': x holds a float leaf / cell, which is moved by a relative 1e-9; 'zone': x holds a stamp or a date index, whose wall clock is kept and whose zone is dropped / added / changed)
_prefer = st.sampled_from([None, None, None, 'bigint_float_collision', 'bigint_float_collision', 'bigint_float_collision', 'within_isclose_tolerance', 'zone', 'zone'])
_pair = st.one_of(
    st.tuples(_value_wide, _value_wide).map(lambda t: dict(x=t[0], y=t[1], mut=None)),
    st.tuples(_value_wide, st.integers(0, 10 ** 6), st.integers(0, 1), _prefer).map(lambda t: dict(x=t[0], y=None, mut=t[1], w=max(t[2], int(t[3] is not None)), prefer=t[3])),
    # y derived from x: a value-equal twin of another raw type, or (1 in 4) the first array of x re-written in another dtype
    st.tuples(_value_wide, st.integers(0, 10 ** 6), st.integers(0, 3), _arr_values).map(
        lambda t: dict(x=t[0], y=_twin(t[0], t[1]), mut=None, how='twin') if t[2] else dict(x=t[3], y=_redtype(t[3], t[1]), mut=None, how='redtype')),
    # two scalars; in one pair out of ten one of them is an int beyond the range of a float (against numpy float scalars, NaN, inf, stamps, strings ...)
    st.tuples(_scalar_wide, _scalar_wide).map(lambda t: dict(x=HUGE[_gate(t, 80) // 20] if _gate(t, 80) % 20 == 7 else t[0], y=HUGE[_gate(t, 80) // 20] if _gate(t, 80) % 20 == 13 else t[1], mut=None)),
)
_copy_near = st.tuples(_value_wide, st.integers(0, 10 ** 6), st.integers(0, 1), _prefer).map(lambda t: dict(x=t[0], mut=t[1], w=max(t[2], int(t[3] is not None)), prefer=t[3]))
_derive = st.tuples(st.sampled_from(['copy', 'twin', 'twin', 'twin2', 'near', 'other']), st.integers(0, 10 ** 6)).map(list)
_triple = st.tuples(_value, _derive, _derive, _value).map(lambda t: dict(x=t[0], derive=[t[1], t[2]], other=t[3]))

# ----------------------------------------------------------------------------- session: the same objects asked several times; identity among the inputs

_WRAPS = [None, None, 'list', 'tuple', 'dict', 'Dict', 'arr']


def _wrap(kind, obj):
    """an outer container around obj (obj first, a plain member after it)"""
    if kind == 'list':
        return [obj, 'tail']
    if kind == 'tuple':
        return (obj, 'tail')
    if kind in ('dict', 'Dict'):
        return _mkdict(kind, {'a': obj, 'b': 'tail'})
    a = np.empty(2, dtype=object)
    a[0] = obj
    a[1] = 'tail'
    return a


def _set_member(kind, outer, obj):
    if kind in ('dict', 'Dict'):
        outer['a'] = obj
    else:
        outer[0] = obj


def _assignable(va, vb):
    """can an object built from spec va be given the content of vb IN PLACE (same python type, and for arrays / pandas the same geometry)?"""
    ta, tb = tag(va), tag(vb)
    if ta != tb:
        return False
    if ta in ('list', 'ulist') + DICTS:
        return True
    if ta == 'arr':
        return va[1] == vb[1] and va[2] == vb[2] and len(va[3]) >= 1
    if ta == 'series':
        return va[1] == vb[1] and va[3] == vb[3] and len(va[2]) >= 1
    if ta == 'df':
        return va[1] == vb[1] and va[2] == vb[2] and len(va[2]) >= 1 and len(va[3]) >= 1
    return False


def _assign(y, src):
    """y := content of src, in place (y stays the same object)"""
    if isinstance(y, list):
        y[:] = src
    elif isinstance(y, dict):
        y.clear()
        y.update(src)
    elif isinstance(y, np.ndarray):
        y[...] = src
    elif isinstance(y, pd.Series):
        y.iloc[:] = src.values
    else:
        y.iloc[:, :] = src.values
    if type(y) is not type(src) or repr(y) != repr(src):
        raise HarnessError('in-place assignment did not take: %r vs %r' % (y, src))


def _session_inplace(spec, vx, kind, vm):
    """classes 11 / 12: X and Y are built once; Y is changed in place between the calls and changed back; every call is judged on the content at that moment"""
    from pyg_base import in_
    wrap = spec['wrap']
    x, y, m, c = build(vx, Env()), build(vx, Env()), build(vm, Env()), build(vx, Env())
    direct = _assignable(vx, vm)
    if not direct and wrap in (None, 'tuple'):
        wrap = 'list'
    X, Y = (x, y) if wrap is None else (_wrap(wrap, x), _wrap(wrap, y))
    seq = [['unrelated'], Y]                      # the caller's own list, passed to every in_ call
    sx = short(X, 120)

    def ask(stage, expect, shown):
        r = [_eq('%s, %s) [%s]; (same two objects as in the earlier calls' % (sx, shown, stage), X, Y),
             _eq('%s, %s) [%s]; (same two objects as in the earlier calls' % (shown, sx, stage), Y, X)]
        r.append(bool(call('in_(%s, [.., %s]) [%s]' % (sx, shown, stage), in_, X, seq)))
        check(_eq('%s, itself) [%s]; (' % (shown, stage), Y, Y), 'eq(Y, Y) is False %s for Y = %s', stage, Y)
        # the stage ends with the question the next stage starts with: nothing but the in-place change lies between the two calls
        r.append(bool(call('in_(%s, [.., %s]) [%s], asked again' % (sx, shown, stage), in_, X, seq)))
        r.append(_eq('%s, %s) [%s], asked again; (same two objects as in the earlier calls' % (sx, shown, stage), X, Y))
        for which, got in zip(('eq(X, Y)', 'eq(Y, X)', 'in_(X, [.., Y])', 'in_(X, [.., Y]) asked again', 'eq(X, Y) asked again'), r):
            check(got == expect, '%s = %s %s, expected %s: X = %s, Y = %s (X, Y and the list are the same objects in all calls of this session)', which, got, stage, expect, X, Y)
    ask('first call, Y is a structural copy of X', True, short(Y, 120))
    if direct:
        _assign(y, m)
        how = 'changed_in_place_at_depth' if wrap else 'changed_in_place_top'
    else:
        _set_member(wrap, Y, m)
        how = 'member_replaced_in_place'
    ask('after Y was changed in place (%s, %s)' % (kind, how), False, short(Y, 120))
    if direct:
        _assign(y, c)
    else:
        _set_member(wrap, Y, c)
    ask('after Y was changed back in place', True, short(Y, 120))
    return [how, 'same_list_object_passed_to_in_', 'state_between_calls']


def _same_spec(a, b):
    return repr(a) == repr(b)


def _share(vs, vref, xref, env, stats, top=False):
    """build spec vs, re-using the member OBJECTS of xref (built from vref) wherever the two specs agree"""
    if not top and _same_spec(vs, vref):
        stats['members'] += 1
        if tag(vs) in CONT:
            stats['containers'] += 1
        if tag(vs) == 'nan':
            stats['nan'] += 1
        return xref
    ts, tr = tag(vs), tag(vref)
    if ts in LISTS and tr in LISTS:
        kids = [_share(c, vref[1][i], xref[i], env, stats) if i < len(vref[1]) else build(c, env) for i, c in enumerate(vs[1])]
        return _mklist(ts, kids)
    if ts in DICTS and tr in DICTS:
        ref = dict((k, c) for k, c in vref[1])
        return _mkdict(ts, {k: (_share(c, ref[k], dict.__getitem__(xref, k), env, stats) if k in ref else build(c, env)) for k, c in vs[1]})
    if ts == 'arr' and tr == 'arr':
        if _same_spec(vs, vref):
            stats['view'] += 1
            return xref.view()                                  # another array object on the same memory
        if vs[1] == 'object' and vref[1] == 'object' and len(vs[3]) == len(vref[3]):
            ref = xref.reshape(-1)
            a = np.empty(len(vs[3]), dtype=object)
            for i, c in enumerate(vs[3]):
                a[i] = _share(c, vref[3][i], ref[i], env, stats)
            return a.reshape(vs[2])
    if ts in ('series', 'df') and tr == ts:
        if _same_spec(vs, vref):
            stats['view'] += 1
            return xref.copy(deep=False)
        m = build(vs, env)
        if vs[1] == vref[1]:
            m.index = xref.index
            stats['index'] += int(m.index is xref.index)
        if ts == 'df' and vs[2] == vref[2]:
            m.columns = xref.columns
        return m
    return build(vs, env)


def _session_shared(spec, vx, kind, vm):
    """class 14: the copy and the near miss hold the very member objects of x (one NaN object, one array, one frame, one index in both operands)"""
    env = Env()
    x = build(vx, env)
    st_c, st_m = dict(members=0, containers=0, nan=0, view=0, index=0), dict(members=0, containers=0, nan=0, view=0, index=0)
    c = _share(vx, vx, x, env, st_c, top=True)
    m = _share(vm, vx, x, env, st_m, top=True)
    sx, sm = short(x, 150), short(m, 150)
    check(_eq('%s, a copy holding the same member objects' % sx, x, c) and _eq('a copy holding the same member objects, %s' % sx, c, x),
          'eq is False for %s and a copy of it that holds the same member objects', x)
    check(not _eq('%s, %s); (both hold the same member objects except for the change' % (sx, sm), x, m) and
          not _eq('%s, %s); (both hold the same member objects except for the change' % (sm, sx), m, x),
          'eq is True for %s and %s although they differ (%s); apart from that change both operands hold the very same member objects', x, m, kind)
    cls = []
    if st_c['members'] or st_m['members']:
        cls.append('operands_share_member_objects')
    if st_c['containers'] or st_m['containers']:
        cls.append('operands_share_container_members')
    if st_c['nan'] or st_m['nan']:
        cls.append('operands_share_nan_object')
    if st_c['view']:
        cls.append('operand_is_view_of_other')
    if st_m['index']:
        cls.append('operands_share_index_object')
    return cls


def _session_twice(spec, vx, kind, vm):
    """class 14: one object sitting twice in X, against containers of separate copies"""
    wrap = spec['wrap'] if spec['wrap'] in ('list', 'tuple', 'dict', 'Dict') else 'list'

    def W(p, q):
        return [p, q] if wrap == 'list' else (p, q) if wrap == 'tuple' else _mkdict(wrap, {'a': p, 'b': q})
    a = build(vx, Env())
    X, X2, C = W(a, a), W(a, a), W(build(vx, Env()), build(vx, Env()))
    M1, M2 = W(build(vx, Env()), build(vm, Env())), W(build(vm, Env()), build(vx, Env()))
    sx = short(X, 150)
    check(_eq('%s (one object twice), another container of that object twice' % sx, X, X2), 'eq is False for two containers holding one object twice: %s', X)
    check(_eq('%s (one object twice), separate copies' % sx, X, C) and _eq('separate copies, %s (one object twice)' % sx, C, X),
          'eq is False for %s (one object twice) against a container of two separate copies', X)
    for M in (M1, M2):
        check(not _eq('%s (one object twice), %s' % (sx, short(M, 150)), X, M) and not _eq('%s, %s (one object twice)' % (short(M, 150), sx), M, X),
              'eq is True for %s (one object twice) and %s although one member differs (%s)', X, M, kind)
    return ['one_object_twice_in_operand']


def _cell_same(a, b):
    if tag(a) == 'nan' or tag(b) == 'nan':
        return tag(a) == 'nan' and tag(b) == 'nan'
    return a == b


def _session_views(spec):
    """class 14: rows / columns cut out of ONE array or frame (views on one buffer, one index); expected from the cells alone"""
    kind, dtype, lines, labels = spec['kind'], spec['dtype'], spec['lines'], spec['labels']
    env = Env()
    k, r = len(lines), len(lines[0])
    block = np.array([[build(c, env) for c in line] for line in lines], dtype=dtype)            # (k, r): one line per row
    if kind == 'arr_strides':
        # views that START at the same byte of one buffer, with the same dtype and shape, and walk it in different strides: a[:m] against a[::2][:m],
        # a square block against its transpose; equal only if the cells they show are equal
        flat = np.ascontiguousarray(block).reshape(-1)
        m = max(1, len(flat) // 2)
        n = min(block.shape)
        sq = np.ascontiguousarray(block[:n, :n])
        pairs = [(flat[:m], flat[::2][:m], 'a[:%i] and a[::2][:%i] of one array' % (m, m)), (sq, sq.T, 'a square block and its transpose'),
                 (flat[:m], flat[:m][::-1][::-1], 'a[:%i] and a[:%i] reversed twice' % (m, m))]
        cls = set(['views_cut_from_one_base', 'kind=' + kind])
        for a, b, what in pairs:
            same_cells = a.shape == b.shape and all(x == y or (x != x and y != y) for x, y in zip(a.reshape(-1).tolist(), b.reshape(-1).tolist()))
            got = _eq('%s: %s, %s' % (what, short(a, 100), short(b, 100)), a, b)
            back = _eq('the same two in reverse order', b, a)
            check(got == back, 'eq is not symmetric on %s: %s vs %s: %s / %s', what, a, b, got, back)
            check(got == same_cells, 'eq is %s for %s although their cells %s: %s vs %s', got, what, 'are the same' if same_cells else 'differ', a, b)
            cls.add('views_equal' if same_cells else 'views_unequal')
            if a.__array_interface__['data'][0] == b.__array_interface__['data'][0] and a.strides != b.strides and a.shape == b.shape:
                cls.add('views_same_start_other_strides:' + ('equal' if same_cells else 'unequal'))
        return sorted(cls)
    if kind == 'arr_rows':
        cut = [block[i] for i in range(k)] + [block[0]]
    elif kind == 'arr_cols':
        base = np.ascontiguousarray(block.T)                                                     # (r, k): one line per column, interleaved in memory
        cut = [base[:, i] for i in range(k)] + [base[:, 0]]
    elif kind == 'df_cols':
        base = pd.DataFrame(np.ascontiguousarray(block.T), index=pd.RangeIndex(r), columns=list(labels))
        cut = [base.iloc[:, i] for i in range(k)] + [base.iloc[:, 0]]
    else:
        base = pd.DataFrame(block, index=pd.DatetimeIndex([mkdt(D0 + o) for o in labels]), columns=['c%i' % j for j in range(r)])
        cut = [base.iloc[i] for i in range(k)] + [base.iloc[0]]
    lines = lines + [lines[0]]
    labels = list(labels) + [labels[0]]
    cls = set(['views_cut_from_one_base', 'kind=' + kind])
    for i in range(k + 1):
        for j in range(k + 1):
            if i == j:
                continue
            same_cells = all(_cell_same(a, b) for a, b in zip(lines[i], lines[j]))
            got = _eq('%s number %i and %i of one %s: %s, %s' % ('row' if kind.endswith('rows') else 'column', i % k, j % k, 'array' if kind.startswith('arr') else 'DataFrame',
                                                                short(cut[i], 100), short(cut[j], 100)), cut[i], cut[j])
            back = _eq('the same two in reverse order', cut[j], cut[i])
            check(got == back, 'eq is not symmetric on two pieces cut from one object: %s vs %s: %s / %s', cut[i], cut[j], got, back)
            if not same_cells:
                check(not got, 'eq is True for two pieces cut from one object although their cells differ: %s vs %s', cut[i], cut[j])
                cls.add('views_unequal')
            elif kind.startswith('arr') or labels[i] == labels[j]:       # Series names are outside the claim: equality is demanded only under one name
                check(got, 'eq is False for two pieces cut from one object with the same cells%s: %s vs %s', '' if kind.startswith('arr') else ' and the same name', cut[i], cut[j])
                cls.add('views_equal')
    return sorted(cls)


def run_session(spec):
    mode = spec['mode']
    if mode == 'views':
        return dict(nt=True, cls=_session_views(spec) + ['mode=views'])
    vx = spec['x']
    ms = _pick_from(_mutations(vx, True), spec.get('prefer'), spec['mut'])
    if mode in ('inplace', 'shared') and spec.get('direct'):        # prefer the near misses that the very object Y can be turned into (same type and geometry, hence the same index)
        ms = [c for c in ms if _assignable(vx, c[1])] or ms
    kind, vm = ms[spec['mut'] % len(ms)]
    cls = {'inplace': _session_inplace, 'shared': _session_shared, 'twice': _session_twice}[mode](spec, vx, kind, vm)
    return dict(nt=tag(vx) in CONT or has_nan(vx) or mode != 'shared', cls=_classes(vx) + cls + ['mode=' + mode, 'near=' + kind] + [c for c in _kind_classes(kind) if c != 'scalar_vs_sequence'])


@st.composite
def _views(draw):
    kind = draw(st.sampled_from(['arr_rows', 'arr_cols', 'arr_cols', 'df_cols', 'df_cols', 'df_rows', 'arr_strides', 'arr_strides']))
    dtype = draw(st.sampled_from(['float64', 'float64', 'int64']))
    k, r = draw(st.integers(2, 3)), draw(st.integers(1, 3))
    cell = st.integers(0, 2) if dtype == 'int64' else st.one_of(st.sampled_from([0.0, 1.0, 2.5]), _nan)
    first = draw(st.lists(cell, min_size=r, max_size=r))
    lines = [first]
    for _ in range(k - 1):
        how = draw(st.integers(0, 2))                   # an equal line, one cell changed, or an unrelated line
        if how == 0:
            lines.append(list(first))
        elif how == 1:
            i = draw(st.integers(0, r - 1))
            lines.append(first[:i] + [draw(cell)] + first[i + 1:])
        else:
            lines.append(draw(st.lists(cell, min_size=r, max_size=r)))
    labels = draw(st.lists(st.sampled_from(['a', 'a', 'b']), min_size=k, max_size=k)) if kind == 'df_cols' else draw(st.lists(st.integers(0, 1), min_size=k, max_size=k))
    return dict(mode='views', kind=kind, dtype=dtype, lines=lines, labels=labels)


_session_general = st.tuples(st.sampled_from(['inplace', 'inplace', 'inplace', 'shared', 'shared', 'twice']), _value_wide, st.integers(0, 10 ** 6), st.sampled_from(_WRAPS), _prefer,
                             st.integers(0, 2)).map(lambda t: dict(mode=t[0], x=t[1], mut=t[2], wrap=t[3], prefer=t[4], direct=int(t[5] > 0)))
_session_containers = st.tuples(st.sampled_from(['inplace', 'inplace', 'shared']), st.one_of(_pandas(True), _arr(_leafy_w, True), _containers(_l1_w, True)), st.integers(0, 10 ** 6),
                                st.sampled_from(_WRAPS), st.integers(0, 2)).map(lambda t: dict(mode=t[0], x=t[1], mut=t[2], wrap=t[3], prefer=None, direct=int(t[4] > 0)))
_session = st.one_of(*([_session_general.map(dict) for _ in range(5)] + [_session_containers.map(dict) for _ in range(3)] + [_views()]))     # .map: hypothesis merges identical branches

# ----------------------------------------------------------------------------- labels: Series / DataFrames whose index and / or column labels are python objects

@st.composite
def _pandas_obj(draw):
    """a Series / DataFrame with object-dtype labels on the index, the columns or both (0-row frames included when only the columns carry them)"""
    where = draw(st.sampled_from(['index', 'index', 'columns', 'columns', 'both']))
    n = draw(st.integers(1 if where != 'columns' else 0, 3)) if draw(st.integers(0, 3)) else 2
    if where != 'columns':
        idx = ['obj', draw(_obj_labels(n))]
    else:
        idx = draw(st.one_of(st.just(['range', n]), st.lists(st.integers(D0, D0 + 5), min_size=n, max_size=n, unique=True).map(lambda o: ['dates', sorted(o)])))
    cell = st.one_of(st.sampled_from([0.0, 1.0, 2.5]), _nan)
    if where == 'index' and draw(st.booleans()):
        kind = draw(st.sampled_from(['float64', 'float64', 'int64', 'object']))
        vals = draw(st.lists(cell if kind == 'float64' else st.integers(0, 2) if kind == 'int64' else st.one_of(st.sampled_from(['a', 'b']), st.none(), st.integers(0, 2)), min_size=n, max_size=n))
        return ['series', idx, vals, kind]
    k = draw(st.integers(1, 3)) if draw(st.integers(0, 3)) else 2
    cols = draw(_obj_labels(k)) if where != 'index' else draw(st.lists(st.sampled_from(['a', 'b', 'c']), min_size=k, max_size=k, unique=True))
    return ['df', idx, cols, [[draw(cell) for _ in cols] for _ in range(n)]]


def _nest(how, v):
    return v if how is None else [how, [v, 'tail']] if how in ('list', 'tuple') else ['dict', [['a', v], ['b', 'tail']]]


_LABEL_MODES = ['copy_near', 'copy_near', 'copy_near', 'pairs_near', 'pairs_free', 'inplace', 'inplace', 'shared', 'twice']


def _labels_spec(t):
    mode, x, y, mut, prefer, nest, wrap = t
    if mode in ('copy_near', 'pairs_near'):
        return dict(mode=mode[:-5] if mode == 'pairs_near' else mode, x=_nest(nest, x), y=None, mut=mut, w=1, prefer=prefer)
    if mode == 'pairs_free':
        return dict(mode='pairs', x=x, y=y, mut=None)
    return dict(mode=mode, x=x, mut=mut, wrap=wrap, prefer=prefer, direct=0)


_labels = st.tuples(st.sampled_from(_LABEL_MODES), _pandas_obj(), _pandas_obj(), st.integers(0, 10 ** 6), st.sampled_from([None, 'zone']), st.sampled_from([None, None, 'list', 'tuple', 'dict']),
                    st.sampled_from(_WRAPS)).map(_labels_spec)


def run_labels(spec):
    """the pair, copy / near-miss and session laws on pandas objects with object-dtype labels; the near miss is mostly ONE label replaced (None <-> NaN, an int beyond 2**53 -> the int
    float64 cannot tell from it, a different leaf): 'pandas objects are equal only if index, columns and all cells match'"""
    mode = spec['mode']
    res = run_pairs(spec) if mode == 'pairs' else run_copy_near(spec) if mode == 'copy_near' else run_session(spec)
    return dict(nt=True, cls=[c for c in res['cls'] if not c.startswith('mode=')] + ['law=' + ('session' if mode in ('inplace', 'shared', 'twice') else mode)])


# ----------------------------------------------------------------------------- the exhaustive pool

POOL = [
    None, True, False, 0, 1, 2, 0.0, 1.0, 2.5, ['nan', 0], ['np', 'float64', ['nan', 0]], ['np', 'float32', ['nan', 0]], ['inf', 1], ['inf', -1],
    '', 'a', '1', ['np', 'str_', 'a'], ['np', 'int64', 1], ['np', 'float64', 1.0], ['np', 'float32', 1.0], ['np', 'bool_', True],
    ['dt', D0, 0], ['ts', D0, 0], ['dt64', D0, 0, 's'], ['dt64', D0, 0, 'us'], ['dt', D0 + 1, 0], ['nat'],
    ['list', []], ['tuple', []], ['dict', []], ['Dict', []], ['dictattr', []], ['arr', 'float64', [0], []], ['arr', 'float64', [0, 2], []], ['arr', 'object', [0], []],
    ['list', [1]], ['tuple', [1]], ['list', [1.0]], ['arr', 'int64', [1], [1]], ['arr', 'float64', [1], [1.0]], ['arr', 'int64', [1, 1], [1]], ['arr', 'int64', [], [1]], ['arr', 'object', [1], [1]],
    ['list', [1, 2]], ['tuple', [1, 2]], ['arr', 'int64', [2], [1, 2]], ['arr', 'int64', [2, 1], [1, 2]], ['arr', 'int64', [1, 2], [1, 2]], ['list', [['list', [1, 2]]]], ['list', [['tuple', [1, 2]]]],
    ['list', [['nan', 0]]], ['tuple', [['nan', 0]]], ['arr', 'float64', [1], [['nan', 0]]], ['arr', 'float64', [2], [['nan', 0], 1.0]], ['arr', 'float64', [2], [1.0, ['nan', 0]]],
    ['dict', [['a', 1]]], ['Dict', [['a', 1]]], ['dictattr', [['a', 1]]], ['dict', [['a', 1.0]]], ['dict', [['b', 1]]], ['dict', [['a', ['nan', 0]]]],
    ['dict', [['a', ['list', [1, 2]]]]], ['dict', [['a', ['tuple', [1, 2]]]]], ['dict', [['a', ['arr', 'int64', [2], [1, 2]]]]],
    ['dict', [['a', ['arr', 'float64', [2, 3], [0.0] * 6]], ['b', ['arr', 'float64', [2, 4], [0.0] * 8]]]],
    ['series', ['range', 2], [1.0, ['nan', 0]], 'float64'], ['series', ['dates', [D0, D0 + 1]], [1.0, ['nan', 0]], 'float64'], ['series', ['range', 2], [1.0, 2.0], 'float64'],
    ['series', ['range', 0], [], 'float64'], ['series', ['range', 1], [1.0], 'float64'],
    ['df', ['range', 2], ['a'], [[1.0], [['nan', 0]]]], ['df', ['range', 2], ['b'], [[1.0], [['nan', 0]]]], ['df', ['range', 2], ['a', 'b'], [[1.0, 2.0], [1.0, 2.0]]],
    ['df', ['range', 0], ['a'], []], ['df', ['range', 2], [], [[], []]],
    ['dict', [['a', ['df', ['range', 2], ['a'], [[1.0], [2.0]]]]]], ['dict', [['a', ['df', ['range', 2], ['b'], [[1.0], [2.0]]]]]],
    ['list', [['series', ['range', 1], [1.0], 'float64']]],
    # a scalar next to longer containers filled with it (numpy / pandas broadcast scalar == container), -0.0, NaT inside a datetime array
    -0.0, ['arr', '<U2', [1], ['a']], ['arr', '<U2', [2], ['a', 'a']], ['arr', 'object', [2], [None, None]], ['arr', 'float64', [2], [1.0, 1.0]],
    ['series', ['range', 2], [1.0, 1.0], 'float64'], ['arr', 'datetime64[s]', [2], [['dt', D0, 0], ['nat']]],
    # an int beyond the range of a float (numpy refuses to compare it with its float scalars), bare and as the cell of an object array; instances of subclasses of dict / list / tuple
    10 ** 400, ['arr', 'object', [1], [10 ** 400]], ['odict', [['a', 1]]], ['udict', [['a', 1]]], ['ulist', [1]], ['utuple', [1]],
]


def enum_pool(tier):
    def chunker(i, nchunks):
        if i == 0:
            yield ['pool']
    return len(POOL) ** 3, chunker


def run_pool(spec):
    n = len(POOL)
    a = [build(v, Env()) for v in POOL]
    b = [build(v, Env()) for v in POOL]       # structural copies with fresh NaN objects
    r = {}
    for i in range(n):
        for j in range(n):
            r[i, j] = _eq('%s, %s' % (short(a[i], 100), short(b[j], 100)), a[i], b[j])
    for i in range(n):
        check(r[i, i], 'eq(x, copy of x) is False for %s', a[i])
        for j in range(n):
            check(r[i, j] == r[j, i], 'eq not symmetric on %s vs %s', a[i], a[j])
            ti, tj = tag(POOL[i]), tag(POOL[j])
            if (ti in CONT or tj in CONT) and ti != tj:
                check(not r[i, j], 'eq(%s, %s) is True although the container types differ', a[i], a[j])
            for k in range(n):
                if r[i, j] and r[j, k]:
                    check(r[i, k], 'eq not transitive: %s ~ %s ~ %s', a[i], a[j], a[k])
    return dict(nt=True, cls=['pool'])


SUBS = [
    Sub('pairs', lambda tier: _pair, run_pairs, quick=4000, thorough=20000,
        rule='pairs (x, y) over scalars, numpy scalars, timestamps, lists/tuples/dict/Dict/dictattr, arrays (int/float/str/object/datetime64; shapes incl. 0-d, empty, 2-d), '
             'Series/DataFrames (float / int / object / datetime cells; range, date, zone-aware date, float labels), nested to depth 3, ints beyond 2**53, -0.0, NaT cells, zone-aware datetime / Timestamp; y independent, a one-step mutation of x (incl. scalar vs a longer container filled with it), or a value-equal twin of another raw type. Oracle: never raises, boolean, reflexive, symmetric, '
             '== agreement on plain NaN-free values, in_ agrees with eq, False across container types / scalar-vs-container. Also OrderedDict / user subclasses of dict, list, tuple (False against the base type with the same members) '
             'and ints beyond the range of a float (10**400 ...) against everything incl. numpy float scalars (numpy refuses that comparison; eq must not raise). non-trivial = a container or NaN involved',
        floor=0.3, class_floors={'pandas': 0.05, 'array': 0.1, 'nan': 0.1, 'equal': 0.03,
                                 'one_value_in_two_raw_types': 0.03, 'one_value_in_two_raw_types_inside_container': 0.009, 'array_same_shape_other_dtype': 0.035,       # class 13
                                 'int_beyond_2**53': 0.05, 'numbers_only_bigint_next_to_float': 0.006, 'negative_zero': 0.03, 'nat_in_datetime_array': 0.007,     # class 15
                                 'scalar_vs_sequence': 0.01}),                                                                     # class 18
    Sub('copy_near', lambda tier: _copy_near, run_copy_near, quick=4000, thorough=20000,
        rule='x with a structural copy (fresh NaN objects) must be equal; x with one definite change (leaf, container type, length, key, reshape, wrap, index, columns, cell) '
             'must be unequal, both directions; also an int beyond 2**53 against the neighbour float64 cannot tell from it, a scalar against arrays / Series / frames filled with it, '
             'a string against its characters, falsy scalars against empty containers, a float moved by a relative 1e-9 (inside any isclose tolerance), a stamp / date index with the same wall clock and the zone '
             'dropped / added / changed, a dict / list / tuple against the subclass instance with the same members, an int beyond the range of a float against its neighbour / inf / 1e308 / numpy.float64(inf) / another such int. '
             'non-trivial = x is a container or holds NaN',
        floor=0.3, class_floors={'near=ctype': 0.03, 'near=reshape': 0.01, 'near=leaf': 0.05, 'duplicate_column_labels': 0.01, 'duplicate_index_labels': 0.005,
                                 'int_beyond_2**53': 0.045, 'near=bigint_float_collision': 0.01, 'negative_zero': 0.025, 'nat_in_datetime_array': 0.007,          # class 15
                                 'scalar_vs_sequence': 0.04, 'near=broadcast_series': 0.008, 'near=broadcast_arr': 0.005}),                                      # class 18
    Sub('triples', lambda tier: _triple, run_triples, quick=2500, thorough=15000,
        rule='triples (x, d1(x), d2(x)) with d in {copy, value-equal twin, double twin, near miss, unrelated}; all 9 eq values; symmetry, reflexivity and transitivity. '
             'non-trivial = at least one equal pair of differently written values',
        floor=0.15),
    Sub('large', lambda tier: _large, run_large, quick=400, thorough=3000,
        rule='lists, tuples, arrays (float/int/object, 1-d and 2-d), Series, DataFrames, dicts and lists of lists with 40-257 cells and NaN at every k-th cell: '
             'eq(x, structural copy) must be True and one changed / NaN-ed / dropped cell, or one cell moved by a relative 1e-9, must make it False (size-dependent paths)',
        floor=0.5),
    Sub('session', lambda tier: _session, run_session, quick=2500, thorough=12000,
        rule='objects built ONCE and asked 2-12 times. inplace: eq(X, Y), eq(Y, X), in_(X, the same list) before / after Y is changed IN PLACE into a near miss (at top level, at depth inside an '
             'untouched outer container, or by replacing a member) / after it is changed back - each call judged on the content at that moment. shared: a copy and a near miss that hold the very '
             'member objects of x (NaN objects, arrays, frames, index), array views, shallow pandas copies. twice: one object sitting twice in a container against separate copies. views: rows / '
             'columns cut out of one array or DataFrame compared with one another (expected from the cells). non-trivial = a container or NaN involved',
        floor=0.3, class_floors={'state_between_calls': 0.15, 'same_list_object_passed_to_in_': 0.15,                                                         # classes 11, 12
                                 'changed_in_place_top': 0.025, 'changed_in_place_at_depth': 0.025, 'member_replaced_in_place': 0.1,
                                 'operands_share_member_objects': 0.025, 'operands_share_container_members': 0.01, 'operand_is_view_of_other': 0.02,              # class 14
                                 'operands_share_index_object': 0.002, 'one_object_twice_in_operand': 0.025,
                                 'views_cut_from_one_base': 0.04, 'views_equal': 0.04, 'views_unequal': 0.015, 'views_same_start_other_strides:unequal': 0.006, 'views_same_start_other_strides:equal': 0.003}),
    Sub('labels', lambda tier: _labels, run_labels, quick=700, thorough=4000,
        rule='Series / DataFrames whose index and / or column labels are python objects (object-dtype Index: strings, None, NaN, small ints, ints beyond 2**53; numbers / None / NaN only in about half), bare or inside a '
             'list / tuple / dict, under the pair laws, the copy / near-miss law and the session laws; the near miss is mostly ONE label replaced by its near neighbour: None <-> NaN, an int beyond 2**53 -> the int '
             'float64 cannot tell from it, a different leaf (never an int against the equal float). always non-trivial',
        floor=0.3, class_floors={}),
    EnumSub('pool_cube', enum_pool, run_pool, thorough_only=False, chunks=1,
            rule='the full %i x %i eq matrix of a fixed pool against structural copies, then every triple for transitivity (%i triples) - exhaustive' % (len(POOL), len(POOL), len(POOL) ** 3)),
]
if INCLUDE_NAN_LABELS:
    for _sub in SUBS[:2]:
        _sub.class_floors['nan_or_nat_index_label'] = 0.008
    SUBS[0].class_floors['nan_column_label'], SUBS[1].class_floors['nan_column_label'], SUBS[4].class_floors['nan_column_label'] = 0.005, 0.01, 0.008
# class 21 (zone-aware stamps: scalars, index labels, the same wall clock with the zone dropped / added / changed), class 27 (a float moved by less than any isclose tolerance), Series of datetime cells
SUBS[0].class_floors.update({'zone_aware_stamp': 0.02, 'zone_aware_scalar': 0.015, 'zone_aware_index': 0.003, 'series_of_datetime_cells': 0.0015})
SUBS[1].class_floors.update({'zone_aware_stamp': 0.017, 'zone_aware_scalar': 0.012, 'zone_aware_index': 0.005, 'near_zone_changed_same_wall_clock': 0.005, 'near_within_isclose_tolerance': 0.005,
                             'series_of_datetime_cells': 0.002})
SUBS[3].class_floors.update({'near_within_isclose_tolerance': 0.04})
SUBS[4].class_floors.update({'zone_aware_stamp': 0.013, 'zone_aware_scalar': 0.008, 'zone_aware_index': 0.005, 'near_zone_changed_same_wall_clock': 0.003, 'near_within_isclose_tolerance': 0.003,
                             'series_of_datetime_cells': 0.0015})
# object-dtype index / column labels (strings, None, NaN, small ints, ints beyond 2**53) inside the wide universe; the near misses on them have their floors in the sub-check 'labels'
SUBS[0].class_floors.update({'object_labels': 0.002})
SUBS[1].class_floors.update({'object_labels': 0.002})
SUBS[4].class_floors.update({'object_labels': 0.0012})
SUBS[5].class_floors.update({'object_labels': 0.3, 'object_index_labels': 0.2, 'object_column_labels': 0.15, 'object_labels_numbers_none_nan_only': 0.16, 'near_object_label_changed': 0.17,
                             'near_object_label_none_vs_nan': 0.045, 'near_object_label_bigint_collision': 0.016, 'near_object_label_leaf': 0.09,
                             'near=index_label_none_vs_nan': 0.028, 'near=column_label_none_vs_nan': 0.014,
                             'law=pairs': 0.06, 'law=copy_near': 0.08, 'law=session': 0.13, 'state_between_calls': 0.065, 'operands_share_index_object': 0.009})
# class 38: ints beyond the range of a float (scalars, members of lists / tuples / dicts, cells of object arrays and object Series; next to floats, NaN, inf; at the place of a numpy float scalar of the other operand -
# the comparison numpy refuses; near misses: the neighbour int, inf, 1e308, a numpy float, another such int, the negative). class 35: collections.OrderedDict / instances of user subclasses of dict, list, tuple
# (at the root and below it; against the base type with the same members as a near miss and as a free pair)
SUBS[0].class_floors.update({'int_beyond_float_range': 0.015, 'huge_int_scalar': 0.009, 'huge_int_member_of_list_tuple_dict': 0.004, 'huge_int_cell_of_object_array_or_series': 0.0015,
                             'huge_int_next_to_float_nan_inf': 0.003, 'huge_int_meets_numpy_float': 0.0006,
                             'container_subclass': 0.019, 'dict_subclass': 0.01, 'list_or_tuple_subclass': 0.009, 'container_subclass_below_root': 0.002,
                             'near_subclass_vs_base_same_members': 0.004, 'subclass_vs_base_or_sibling_free_pair': 0.0009})
SUBS[1].class_floors.update({'int_beyond_float_range': 0.01, 'huge_int_scalar': 0.0033, 'huge_int_member_of_list_tuple_dict': 0.004, 'huge_int_cell_of_object_array_or_series': 0.002,
                             'huge_int_next_to_float_nan_inf': 0.003, 'huge_int_meets_numpy_float': 0.0005, 'near_huge_int': 0.0047,
                             'container_subclass': 0.019, 'dict_subclass': 0.009, 'list_or_tuple_subclass': 0.009, 'container_subclass_below_root': 0.004, 'near_subclass_vs_base_same_members': 0.009})
SUBS[4].class_floors.update({'int_beyond_float_range': 0.003, 'huge_int_cell_of_object_array_or_series': 0.0006, 'huge_int_meets_numpy_float': 0.0002, 'near_huge_int': 0.0025,      # (seed 4: a third of seeds 1-3)
                             'container_subclass': 0.029, 'dict_subclass': 0.0125, 'list_or_tuple_subclass': 0.0155, 'container_subclass_below_root': 0.0033, 'near_subclass_vs_base_same_members': 0.011})
