# -*- coding: utf-8 -*-
"""
pv.fuzz: coverage-guided generation for one Hypothesis sub-check (atheris / libFuzzer driving Hypothesis' fuzz_one_input).

    python -m pv.fuzz <PROP> <SUB> <out.json> --runs N --seed S [--max-len L] [--max-seconds T]

The generator (a Hypothesis strategy of plain-data specs) and the oracle (`run(spec)`) are the ones of the sub-check; only the
source of the choice sequence changes: libFuzzer mutates byte strings and keeps those that reach new branches of the
*instrumented pyg_base* (python-level coverage of every pyg_base module), Hypothesis decodes them into specs. A branch that random
generation reaches once in 10^5 cases (a fast path behind a size threshold AND a special key, say) is kept in the corpus the first
time it is touched and mutated from there.

The process is run by pv.runner (thorough tier) as a sub-process, because atheris.Fuzz() never returns. It writes <out.json>
(evaluations, distinct non-trivial, classes, samples, fail = [spec, message] or null, error) every 500 evaluations, on the first
violation and after N evaluations, and then leaves through os._exit.
"""
import json
import os
import sys
import time
import traceback


def main():
    prop, subname, out = sys.argv[1:4]
    opts = dict(zip(sys.argv[4::2], sys.argv[5::2]))
    runs = int(opts.get('--runs', 20000))
    seed = int(opts.get('--seed', 1)) or 1
    max_len = int(opts.get('--max-len', 4096))
    max_seconds = float(opts.get('--max-seconds', 0) or 0)      # wall-clock cap of this auxiliary stage (0 = none); hitting it only ends the campaign early
    corpus = opts.get('--corpus')
    import logging
    logging.disable(logging.INFO)
    import atheris
    with atheris.instrument_imports(include=['pyg_base'], enable_loader_override=False):
        import pyg_base  # noqa: F401   (instruments every pyg_base._module imported from __init__)
    path = os.path.realpath(pyg_base.__file__)
    want = os.path.realpath(os.environ.get('PV_REPO_SRC', '/repo/src')) + '/'
    if not path.startswith(want):
        _dump(out, dict(error='pyg_base imported from %s, not from %s' % (path, want)))
        os._exit(2)
    import hypothesis
    from hypothesis import given, settings, HealthCheck, Verbosity
    _patch_bytestring_provider()
    from pv import core
    from pv.runner import _load, _known_preds
    mod = _load(prop)
    sub = [s for s in mod.SUBS if s.name == subname][0]
    rec = core.Recorder(sub, _known_preds(mod, prop, subname))
    strat = sub.strategy('thorough')
    t0 = time.time()
    state = dict(calls=0)

    @settings(database=None, deadline=None, suppress_health_check=list(HealthCheck), verbosity=Verbosity.quiet)
    @given(strat)
    def test(spec):
        rec.run_one(spec)

    fuzz_one = test.hypothesis.fuzz_one_input

    def result(final):
        r = rec.result()
        return dict(sub=subname, evaluations=r['evaluations'], nt=sorted(r['nt']), classes=dict(r['classes']), excluded=dict(r['excluded']),
                    samples=r['samples'], fail=list(r['fail']) if r['fail'] else None, error=r['error'], exhaustive=False,
                    wall=time.time() - t0, calls=state['calls'], final=final, engine='atheris')

    def one(data):
        state['calls'] += 1
        try:
            fuzz_one(data)
        except core.Violation:
            _dump(out, result(True))
            os._exit(0)
        except BaseException:
            if rec.fail is None:
                rec.error = traceback.format_exc()
            _dump(out, result(True))
            os._exit(0)
        if state['calls'] % 500 == 0:
            _dump(out, result(False))
        if state['calls'] >= runs or (max_seconds and time.time() - t0 > max_seconds):
            _dump(out, dict(result(True), stopped_by_time=state['calls'] < runs))
            os._exit(0)

    argv = [sys.argv[0], '-runs=%i' % (runs + 10), '-seed=%i' % seed, '-max_len=%i' % max_len, '-len_control=0', '-use_value_profile=1', '-verbosity=0', '-print_final_stats=0']
    if corpus:
        argv.append(corpus)
    atheris.Setup(argv, one)
    atheris.Fuzz()
    _dump(out, result(True))
    os._exit(0)


def _patch_bytestring_provider():
    """Hypothesis 6.168's BytestringProvider.draw_integer draws `bit_length(max - min)` bits and waits for a value inside [min, max] WITHOUT
    adding min, so a range that does not start near 0 (integers(1000, 1500), the swaps of permutations(), ordinals of dates) never
    decodes and every byte string is rejected. Replaced by min + (bits mod (max - min + 1)): total, no rejection loop."""
    from hypothesis.internal.conjecture.providers import BytestringProvider

    def draw_integer(self, min_value=None, max_value=None, *, weights=None, shrink_towards=0):
        if min_value is None and max_value is None:
            min_value, max_value = -(2 ** 127), 2 ** 127 - 1
        elif min_value is None:
            min_value = max_value - 2 ** 64
        elif max_value is None:
            max_value = min_value + 2 ** 64
        if min_value == max_value:
            return min_value
        span = max_value - min_value
        return min_value + self._draw_bits(span.bit_length()) % (span + 1)
    BytestringProvider.draw_integer = draw_integer


def _dump(out, doc):
    tmp = out + '.tmp'
    with open(tmp, 'w') as f:
        json.dump(doc, f)
    os.replace(tmp, out)


if __name__ == '__main__':
    main()
