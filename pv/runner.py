# -*- coding: utf-8 -*-
"""
pv.runner: ./check <ID> --tier quick|thorough [--replay file] [--only sub,sub] [--scale x]

exit 0: property held on everything explored (KNOWN-FINDING lines may be printed)
exit 1: VIOLATION property=<id> replay=<path>
exit 2: harness error (import failure, vacuous generator, budget hit, bad replay file) - never a violation
"""
import argparse
import importlib
import json
import multiprocessing as mp
import os
import shutil
import sys
import time
import traceback
from collections import Counter

# The floors in the property modules are TARGET rates (what the generator is built to reach on average). Hypothesis' sampling is
# over-dispersed between seeds (a class averaging 5 % of the cases was seen between 1 % and 8 % over six seeds), so the harness error
# (exit 2, "the generator no longer reaches this class") is raised at a fraction of the target; tools/soak.sh margins lists the ratios.
NT_SLACK = 0.6
CLASS_SLACK = 0.4

HERE = os.path.dirname(os.path.dirname(os.path.abspath(__file__)))
NPROC = 16


def _import_target():
    import logging
    logging.disable(logging.INFO)   # pyg_base logs an INFO line for every implicit join
    import pyg_base
    path = os.path.realpath(pyg_base.__file__)
    want = os.path.realpath(os.environ.get('PV_REPO_SRC', '/repo/src')) + '/'
    if not path.startswith(want):
        print('HARNESS-ERROR pyg_base imported from %s, not from %s' % (path, want))
        sys.exit(2)
    return pyg_base


def _load(prop):
    return importlib.import_module('pv.props.%s' % prop.lower())


def _known_entries(prop):
    path = os.path.join(HERE, 'known_findings.json')
    if not os.path.exists(path):
        return []
    entries = json.load(open(path))
    return [e for e in entries if e.get('property') == prop and e.get('status') == 'known']


def _known_preds(mod, prop, subname):
    preds = {}
    for e in _known_entries(prop):
        if e.get('subcheck') == subname:
            preds[e['signature']] = getattr(mod, 'KNOWN')[e['signature']]
    return preds


def _task(args):
    """executed in a worker process"""
    prop, subname, tier, kind, seed_val, a, b = args
    from pv import core
    try:
        mod = _load(prop)
        sub = [s for s in mod.SUBS if s.name == subname][0]
        known = _known_preds(mod, prop, subname)
        t0 = time.time()
        if kind == 'hyp':
            res = core.run_hyp(sub, a, seed_val, tier, known)
        elif kind == 'machine':
            res = core.run_machine(sub, a, b, seed_val, tier, known)
        elif kind == 'enum':
            res = core.run_enum_chunk(sub, tier, a, b, known)
        elif kind == 'fuzz':
            res = _run_fuzz(prop, subname, seed_val, a)
        res['wall'] = time.time() - t0
        return res
    except BaseException:
        return dict(sub=subname, evaluations=0, nt=set(), classes=Counter(), excluded=Counter(), samples=[],
                    fail=None, error=traceback.format_exc(), exhaustive=False, wall=0)


def fuzz_available():
    try:
        sys.path.insert(0, os.path.join(HERE, '.deps')) if os.path.join(HERE, '.deps') not in sys.path else None
        import importlib.util
        return importlib.util.find_spec('atheris') is not None
    except Exception:
        return False


def _run_fuzz(prop, subname, seed_val, runs):
    """one coverage-guided campaign (pv.fuzz) in a sub-process of its own: atheris.Fuzz() never returns"""
    import subprocess
    import tempfile
    fd, out = tempfile.mkstemp(prefix='pv-fuzz-', suffix='.json')
    os.close(fd)
    os.remove(out)
    env = dict(os.environ, PYTHONPATH=os.pathsep.join([os.environ.get('PYTHONPATH', ''), os.path.join(HERE, '.deps')]))
    work = tempfile.mkdtemp(prefix='pv-corpus-')
    try:
        committed = os.path.join(HERE, 'corpus', prop, subname)
        if os.path.isdir(committed):          # libFuzzer writes new units into its corpus directory: work on a copy
            for fn in sorted(os.listdir(committed)):
                shutil.copy(os.path.join(committed, fn), work)
        p = subprocess.run([sys.executable, '-W', 'ignore', '-m', 'pv.fuzz', prop, subname, out, '--runs', str(runs), '--seed', str(seed_val),
                            '--corpus', work, '--max-seconds', os.environ.get('PV_FUZZ_MAX_S', '420')], env=env, cwd=HERE, stdout=subprocess.DEVNULL, stderr=subprocess.PIPE, text=True)
        if not os.path.exists(out):
            raise RuntimeError('pv.fuzz left no result (exit %s): %s' % (p.returncode, (p.stderr or '')[-1500:]))
        r = json.load(open(out))
    finally:
        shutil.rmtree(work, ignore_errors=True)
        for f in (out, out + '.tmp'):
            if os.path.exists(f):
                os.remove(f)
    if r.get('error') and 'evaluations' not in r:
        raise RuntimeError(r['error'])
    return dict(sub=subname + '@fuzz', evaluations=r['evaluations'], nt=set(r['nt']), classes=Counter(r['classes']), excluded=Counter(r['excluded']),
                samples=r['samples'], fail=tuple(r['fail']) if r['fail'] else None, error=r['error'], exhaustive=False, wall=r['wall'])


FUZZ_QUICK = 0.5      # coverage-guided evaluations per sub-check in the quick tier, as a fraction of its random cases (one process)
FUZZ_THOROUGH = 4     # processes per sub-check in the thorough tier, each with as many byte strings as 2 random shards have cases


def _tasks(prop, mod, tier, seed, only, scale):
    tasks = []
    for sub in mod.SUBS:
        if only and sub.name not in only:
            continue
        if sub.kind == 'hyp':
            if tier == 'quick':
                k = getattr(sub, 'qshards', None) or (4 if sub.quick >= 800 else 1)
                for sh in range(k):
                    tasks.append((prop, sub.name, tier, 'hyp', seed * 1000 + 50 + sh, max(1, int(sub.quick * scale / k)), 0))
            else:
                for sh in range(sub.shards):
                    tasks.append((prop, sub.name, tier, 'hyp', seed * 1000 + 1 + sh, max(1, int(sub.thorough * scale)), 0))
        elif sub.kind == 'machine':
            if tier == 'quick':
                n, steps = sub.quick
                # quick machines are split over a few processes to stay inside the quick budget
                k = 4
                for sh in range(k):
                    tasks.append((prop, sub.name, tier, 'machine', seed * 1000 + 100 + sh, max(1, int(n * scale / k)), steps))
            else:
                n, steps = sub.thorough
                for sh in range(sub.shards):
                    tasks.append((prop, sub.name, tier, 'machine', seed * 1000 + 200 + sh, max(1, int(n * scale)), steps))
        elif sub.kind == 'enum':
            if tier == 'quick' and sub.strategy is not None:
                tasks.append((prop, sub.name, tier, 'hyp', seed * 1000 + 0, max(1, int(sub.quick * scale)), 0))
            elif tier == 'quick' and sub.thorough_only:
                continue
            else:
                for i in range(sub.chunks):
                    tasks.append((prop, sub.name, tier, 'enum', 0, i, sub.chunks))
    if os.environ.get('PV_FUZZ', '1') != '0' and fuzz_available():
        for sub in mod.SUBS:
            if (only and sub.name not in only) or sub.kind != 'hyp' or getattr(sub, 'fuzz', True) is False:
                continue
            if tier == 'quick':
                # only from a committed corpus (corpus/<ID>/<sub>/): a campaign from the empty corpus spends a quick budget learning the format
                if os.path.isdir(os.path.join(HERE, 'corpus', prop, sub.name)):
                    tasks.append((prop, sub.name, tier, 'fuzz', seed * 1000 + 300, max(200, int(sub.quick * scale * FUZZ_QUICK)), 0))
            else:
                for sh in range(FUZZ_THOROUGH):
                    tasks.append((prop, sub.name, tier, 'fuzz', seed * 1000 + 301 + sh, max(1000, int(sub.thorough * scale * 2)), 0))
    return tasks


def _write_replay(prop, subname, spec, message, seed):
    from pv.core import spec_hash
    d = os.path.join(HERE, 'out', prop)
    os.makedirs(d, exist_ok=True)
    path = os.path.join(d, '%s-%016x.json' % (subname, spec_hash(spec)))
    with open(path, 'w') as f:
        json.dump(dict(property=prop, subcheck=subname, spec=spec, message=message, seed=seed), f, indent=1)
    return os.path.relpath(path, HERE)


def _replay_file(prop, mod, path):
    """returns None if the spec passes, the violation message if not"""
    from pv import core
    doc = json.load(open(path))
    subs = {s.name: s for s in mod.SUBS}
    if doc.get('property') != prop or doc.get('subcheck') not in subs:
        raise core.HarnessError('replay file %s does not belong to %s' % (path, prop))
    try:
        subs[doc['subcheck']].run(doc['spec'])
    except core.Violation as v:
        return str(v)
    except core.OutOfFuel as e:
        return 'did not terminate: %s' % e
    return None


def main(argv=None):
    ap = argparse.ArgumentParser()
    ap.add_argument('prop')
    ap.add_argument('--tier', default=os.environ.get('VERIF_TIER', 'quick'), choices=['quick', 'thorough'])
    ap.add_argument('--replay', default=None)
    ap.add_argument('--only', default=None)
    ap.add_argument('--scale', type=float, default=1.0)
    ap.add_argument('--no-evidence', action='store_true')
    args = ap.parse_args(argv)
    prop = args.prop.upper()
    seed = int(os.environ.get('VERIF_SEED', '1') or 1)
    t0 = time.time()
    try:
        _import_target()
        mod = _load(prop)
    except SystemExit:
        raise
    except BaseException:
        print('HARNESS-ERROR cannot import pyg_base / property module for %s' % prop)
        traceback.print_exc()
        return 2

    # ---- single replay
    if args.replay:
        try:
            msg = _replay_file(prop, mod, args.replay)
        except BaseException:
            print('HARNESS-ERROR replay failed to run')
            traceback.print_exc()
            return 2
        if msg is None:
            print('replay %s: property holds' % args.replay)
            return 0
        print('replay %s: %s' % (args.replay, msg))
        print('VIOLATION property=%s replay=%s' % (prop, args.replay))
        return 1

    violations = []   # (sub, replay path, message)
    errors = []

    # ---- known findings: replay the canonical specs, print KNOWN-FINDING
    from pv import core
    subs_by_name = {s.name: s for s in mod.SUBS}
    for e in _known_entries(prop):
        try:
            subs_by_name[e['subcheck']].run(e['canonical_spec'])
            print('NOTE: known finding no longer reproduces (update known_findings.json): property=%s %s' % (prop, e['what']))
        except (core.Violation, core.OutOfFuel):
            print('KNOWN-FINDING: property=%s %s' % (prop, e['what']))
        except BaseException:
            errors.append('known finding replay crashed: %s' % traceback.format_exc())

    # ---- committed regression inputs
    n_replayed = 0
    rdir = os.path.join(HERE, 'replays', prop)
    if os.path.isdir(rdir):
        for fn in sorted(os.listdir(rdir)):
            if not fn.endswith('.json'):
                continue
            path = os.path.join(rdir, fn)
            try:
                msg = _replay_file(prop, mod, path)
            except BaseException:
                errors.append('replay %s crashed: %s' % (fn, traceback.format_exc()))
                continue
            n_replayed += 1
            if msg is not None:
                violations.append((json.load(open(path))['subcheck'], os.path.relpath(path, HERE), msg))

    # ---- generated search
    only = set(args.only.split(',')) if args.only else None
    tasks = _tasks(prop, mod, args.tier, seed, only, args.scale)
    budget = float(os.environ.get('PV_BUDGET_S', 1500 if args.tier == 'quick' else 6 * 3600))
    results = []
    if tasks:
        ctx = mp.get_context('fork')
        pool = ctx.Pool(min(NPROC, len(tasks)), maxtasksperchild=1)
        try:
            pending = [(t, pool.apply_async(_task, (t,))) for t in tasks]
            for t, p in pending:
                left = budget - (time.time() - t0)
                try:
                    results.append(p.get(timeout=max(1.0, left)))
                except mp.TimeoutError:
                    errors.append('budget of %is exhausted in sub-check %s (inconclusive)' % (budget, t[1]))
                    break
        finally:
            pool.terminate()
            pool.join()

    # ---- aggregate per sub-check
    agg = {}
    for r in results:
        a = agg.setdefault(r['sub'], dict(evaluations=0, nt=set(), classes=Counter(), excluded=Counter(), samples=[],
                                          exhaustive=True, wall=0.0, fail=None))
        a['evaluations'] += r['evaluations']
        a['nt'] |= r['nt']
        a['classes'] += r['classes']
        a['excluded'] += r['excluded']
        a['wall'] = max(a['wall'], r.get('wall', 0))
        a['exhaustive'] = a['exhaustive'] and r['exhaustive']
        for s in r['samples']:
            if len(a['samples']) < 3 and s not in a['samples']:
                a['samples'].append(s)
        if r['error']:
            errors.append('sub-check %s: %s' % (r['sub'], r['error']))
        if r['fail'] and a['fail'] is None:
            a['fail'] = r['fail']
    for name, a in agg.items():
        if a['fail']:
            spec, msg = a['fail']
            violations.append((name, _write_replay(prop, name.split('@')[0], spec, msg, seed), msg))

    # ---- vacuity floors
    for name, a in agg.items():
        if name.endswith('@fuzz'):
            continue          # the floors describe the random generator; a coverage-guided corpus has a distribution of its own
        sub = subs_by_name[name]
        if a['fail'] or not a['evaluations']:
            continue
        if len(a['nt']) < NT_SLACK * sub.floor * a['evaluations'] and not a['exhaustive']:
            errors.append('sub-check %s is vacuous: %i distinct non-trivial of %i evaluations (floor %.0f%%)'
                          % (name, len(a['nt']), a['evaluations'], 100 * sub.floor))
        if os.environ.get('PV_FLOOR_MARGINS'):
            # how far every floor is from being hit, in standard deviations of a binomial count (tools/soak.sh margins)
            rows = [('<non-trivial>', len(a['nt']), sub.floor)] + [(c, a['classes'].get(c, 0), fl) for c, fl in sub.class_floors.items()]
            for c, obs, fl in rows:
                if not a['exhaustive'] and fl > 0:
                    need = (NT_SLACK if c == '<non-trivial>' else CLASS_SLACK) * fl * a['evaluations']
                    print('MARGIN %s %s %s obs=%i need=%.1f ratio=%.2f' % (prop, name, c, obs, need, obs / max(need, 1e-9)))
        for c, fl in sub.class_floors.items():
            if a['classes'].get(c, 0) < CLASS_SLACK * fl * a['evaluations']:
                errors.append('sub-check %s: class %r reached only %i of %i evaluations (floor %.1f%%)'
                              % (name, c, a['classes'].get(c, 0), a['evaluations'], 100 * fl))

    wall = time.time() - t0
    evaluations = sum(a['evaluations'] for a in agg.values())
    dn = sum(len(a['nt']) for a in agg.values())
    samples = []
    for name, a in agg.items():
        for s in a['samples'][:2]:
            samples.append({'subcheck': name, 'spec': s})
    evidence = dict(
        property_id=prop, tier=args.tier, seed=seed, level='exploration',
        coverage=dict(
            evaluations=evaluations, distinct_nontrivial=dn,
            rule=' || '.join('%s: %s' % (s.name, s.rule) for s in mod.SUBS if s.name in agg) + (
                ' || <sub>@fuzz: the same generator and oracle, the choice sequence supplied by libFuzzer (atheris) with python-level coverage feedback '
                'from every pyg_base module (value profile on): byte strings reaching new branches are kept and mutated' if any(n.endswith('@fuzz') for n in agg) else ''),
            samples=samples,
            exhaustive=bool(agg) and all(a['exhaustive'] for a in agg.values()),
            replayed_regression_inputs=n_replayed,
            subchecks={name: dict(evaluations=a['evaluations'], distinct_nontrivial=len(a['nt']),
                                  exhaustive=a['exhaustive'], classes=dict(a['classes'].most_common()),
                                  excluded_known=dict(a['excluded']), wall_s=round(a['wall'], 1))
                       for name, a in agg.items()}),
        assumptions=list(getattr(mod, 'ASSUMPTIONS', [])),
        wall_s=round(wall, 2), violations=len(violations))
    if not args.no_evidence and not only and not errors:
        os.makedirs(os.path.join(HERE, 'evidence'), exist_ok=True)
        with open(os.path.join(HERE, 'evidence', '%s.json' % prop), 'w') as f:
            json.dump(evidence, f, indent=1, sort_keys=True)

    for name, a in agg.items():
        print('%s/%s: %i evaluations, %i distinct non-trivial%s, %.1fs; classes: %s%s' % (
            prop, name, a['evaluations'], len(a['nt']), ' (exhaustive)' if a['exhaustive'] else '', a['wall'],
            ', '.join('%s=%i' % kv for kv in a['classes'].most_common(12)),
            ('; excluded_known: %s' % dict(a['excluded'])) if a['excluded'] else ''))
    print('%s %s seed=%i: %i evaluations, %i distinct non-trivial, %i regression inputs replayed, %.1fs'
          % (prop, args.tier, seed, evaluations, dn, n_replayed, wall))
    if violations:
        for name, path, msg in violations:
            print('  %s: %s' % (name, msg))
            print('VIOLATION property=%s replay=%s' % (prop, path))
        return 1
    if errors:
        for e in errors:
            print('HARNESS-ERROR %s' % e)
        return 2
    return 0


if __name__ == '__main__':
    sys.exit(main())
